#!/usr/bin/env python3
"""Write TASK.md into scratch worktrees /tmp/<prefix>_<id> for a seeding round (property text + summaries of earlier seeds only;
nothing about the verification machinery)."""
import glob, json, sys
prefix = sys.argv[1]
HINTS = {
 'C01': "Entry point: fast_ticc.cluster_label_assignment.assign_point_cluster_labels(cost_table, beta) -> (labels, cost); beta scalar or length-T vector; beta[i] prices the pair (i,i+1). NUMBA_DISABLE_JIT=1 gives the interpreted kernel. predict_cluster_labels(model, data) is its only caller.",
 'C02': "Entry point: fast_ticc.admm.admm_optimize_theta(S, lam, window_size, num_data_series, rho=, rho_update=, max_iterations=, absolute_tolerance=, relative_tolerance=) -> .theta (compressed; fast_ticc.matrix_compression.reinflate_matrix expands). Solver in fast_ticc/admm/solver.py, index maps in admm/unique_values.py.",
 'C03': "Entry points: admm_optimize_theta, fast_ticc.ticc_labels(..., min_meaningful_covariance=eps). Floor filter in graphical_lasso.py, X update in admm/solver.py, log-determinants via slogdet in likelihood.py / graphical_lasso.py / cluster_metrics.py.",
 'C04': "Front ends fast_ticc.ticc_labels / ticc_joint_labels; helpers pad_missing_labels / split_joint_labels in data_preparation.py; result assembly in front_end._split_combined_result and main_loop.fit_stacked_data.",
 'C05': "fast_ticc.likelihood.all_points_all_clusters_log_likelihood(model, data), point_log_likelihood(...), result fields of ticc_labels. A model can be hand-built from containers.arguments.UserArguments and containers.model_state.ModelState.empty_model(args, data) (set cluster.train_inverse and cluster.stacked_data_mean).",
 'C06': "Result fields of fast_ticc.ticc_labels: label_assignment_cost, all_log_likelihood, overall_log_likelihood(_mean/_median), cluster_log_likelihood_mean/_median, point_labels. Use the single-series front end for the demo (the joint front end is known to price label changes across series boundaries - a separate known issue, not to be used).",
 'C07': "Known issue NOT to be used: ticc_joint_labels drops the masked switching cost (UserArguments built before masking). Break other parts: stacking of several series, the mask helper data_preparation.label_switching_cost_template, or joint([X]) == single(X).",
 'C08': "fast_ticc.cluster_maintenance.repopulate_empty_clusters(model); tests/test_cluster_repopulation.py shows how to hand-build a ModelState. Uses Python's global random.",
 'C09': "fast_ticc.main_loop.fit_stacked_data and the four phase functions it calls; front end fast_ticc.ticc_labels(..., iteration_limit=). The demo may wrap the phase functions to record rounds.",
 'C10': "fast_ticc.data_preparation.stack_training_data / stack_training_data_multiple_series / split_joint_labels / pad_missing_labels.",
 'C11': "fast_ticc.matrix_compression (compress_matrix, reinflate_matrix, _full_matrix_size, _upper_triangle_indices) and fast_ticc.admm.unique_values (_compressed_index, locations_compressed, locations_index_slices, _block_start_coordinates); several are memoised.",
 'C12': "cluster_maintenance.update_all_cluster_statistics / update_cluster_member_data_statistics, graphical_lasso._setup_optimization_task; front end flag biased_covariance. The demo may replace multiprocessing.Pool by a synchronous stand-in and wrap fast_ticc.admm.admm_optimize_theta to record arguments.",
 'C13': "fast_ticc.containers.model_state.ModelState / ClusterParameters (point_labels setter, shallow_copy, deep_copy) and the phase functions. Accepted quirk NOT to be used: predict_cluster_labels refreshes inverse_covariance and log_determinant on its input.",
 'C14': "Pool created per call in main_loop._init_task_pool (multiprocessing only if env CUPCAKE_ENABLE_MULTIPROCESSING is non-empty); tasks submitted/gathered in graphical_lasso; randomness: sklearn GaussianMixture init (NumPy global RNG) and random.sample in cluster_maintenance. Memoised helpers in admm/unique_values.py and matrix_compression.py.",
 'C15': "numba_guard.py fallbacks; kernels cluster_label_assignment.assign_point_cluster_labels (njit) and likelihood.all_points_all_clusters_log_likelihood_fast (njit parallel). Three modes need three processes: default, NUMBA_DISABLE_JIT=1, and sys.modules['numba']=None before importing fast_ticc.",
 'C16': "fast_ticc.cluster_metrics.bayesian_information_criterion(model); inputs train_inverse / empirical_covariance / point_labels of the final ModelState.",
 'C17': "fast_ticc.cluster_metrics.calinski_harabasz_index(stacked_data, model). Known issue NOT to be used: the between-cluster term is centred on np.mean(stacked_training_data), the scalar mean of all entries, instead of the per-column centroid; the reported value must equal neither the textbook formula nor that scalar-centre variant for your change to count.",
 'C18': "compute_lambda_sum in admm/solver.py (scalar vs matrix sparsity weight), predict_cluster_labels in cluster_label_assignment.py (scalar switching cost normalised with float()), _zero_small_elements in graphical_lasso.py (floor), front ends.",
 'C19': "Front ends, admm_optimize_theta, assign_point_cluster_labels, predict_cluster_labels. With the default single-process pool the optimiser runs in a forked worker, so writes there are invisible to the caller: optimiser-path changes are observable through a direct call of admm_optimize_theta or in the parent process.",
 'C20': "Pool lifecycle in main_loop.fit_stacked_data (close+join on success and on the error path), task gathering in graphical_lasso._retrieve_optimization_results, error translation in front_end.py, donor shortage in cluster_maintenance._find_point_donor.",
}
props = {json.loads(l)['id']: json.loads(l) for l in open('/verif/properties.jsonl')}
for pid, p in props.items():
    wt = f'/tmp/{prefix}_{pid}'
    taken = []
    for m in sorted(glob.glob(f'/verif/seeded/{pid}/*/meta.json')):
        try:
            j = json.load(open(m))
            taken.append('- ' + str(j.get('summary', ''))[:330].replace('\n', ' ') + ' [needed: ' + str(j.get('needs', ''))[:170].replace('\n', ' ') + ']')
        except Exception:
            pass
    task = f"""# Task: seed two NEW property-breaking changes for {pid}

You are helping evaluate a test-suite's blind spots for the Python library sandialabs/fast_ticc (TICC time-series clustering:
block-Toeplitz ADMM graphical lasso, Viterbi-style label assignment, cluster repopulation).

Your scratch git worktree is {wt} (detached HEAD). Work ONLY inside it. Never read, modify or run anything under /repo or
/verif, never commit, and NEVER use `git stash` (worktrees share the stash): save a change with `git diff > seed/x/patch.diff`
and revert with `git checkout -- src`.

## The property

{pid}: {p['title']}

{p['statement']}

It must hold over: {p['quantifier']['text']}

## What to produce

TWO different, realistic source changes ("a" and "b": different mechanisms, different code sites where possible) to the library
under {wt}/src/fast_ticc that each BREAK this property while

1. the package still imports and the existing test suite still passes unchanged:
   `cd {wt} && /venv/bin/python -m pytest -q -p no:cacheprovider --timeout=900` (3-6 minutes; pyproject.toml makes the tests
   import {wt}/src). Run the full suite once per final change.
2. the breakage needs something specific to manifest - NOT something ordinary use would expose at once.

Several earlier seeds exist for this property (listed below with what each needed). Yours must be genuinely different: another
code site AND another kind of trigger. Think about what a careful reviewer would still miss, for example:
  - a condition on the *combination* of two hyper-parameters or of a hyper-parameter with the data shape;
  - behaviour that differs only on an error path, on the last round, on the first call of a process, or on the second call;
  - a numerical rewrite that is exact for "nice" numbers and wrong only at extreme magnitude, near-ties, denormals or large counts;
  - a helper that is shared by two callers and is changed correctly for one of them;
  - an "optimisation" that is valid for contiguous float64 input and silently wrong for another stride, dtype or container type;
  - a change in one module that is only wrong together with an unchanged assumption in another module;
  - behaviour that depends on the environment rather than on the arguments: number of CPUs, an environment variable, the logging
    level, NumPy's floating-point error state (np.seterr / np.errstate), running inside a forked worker, a warnings filter;
  - a size threshold (K, T, N*W, number of series beyond some number) at which another code path, chunk size or dtype is chosen;
  - integer pitfalls: counts or indices held in a narrow or unsigned NumPy integer, Python int vs NumPy int semantics (overflow,
    negative indices, floor division, bool as int), off-by-one only when a length is a multiple of something;
  - control flow: a broadened or narrowed `except`, a `finally` that masks, an early `return`/`break`/`continue` in a loop,
    a default argument evaluated once, a generator consumed twice, a dict/set whose iteration order is relied on;
  - argument *kinds* the interface accepts but nobody tests: array subclasses (np.matrix, masked arrays, memory maps), 0-d
    arrays and NumPy scalars where a Python number is expected, lists/tuples where arrays are expected, non-native byte order,
    object dtype, arrays with negative strides or zero-length axes, read-only or overlapping views;
  - boundary values of the hyper-parameters and shapes: the smallest series the interface allows (T == W, one stacked row per
    series), N == 1, K close to the number of points, iteration_limit 1, min_cluster_size 1 or larger than any cluster,
    beta or lambda exactly 0, huge (1e300) or denormal, num_processors larger than the number of clusters;
  - interplay of two features that are each fine alone (a vector switching cost together with repopulation, a covariance floor
    together with a matrix-valued sparsity weight, the joint front end together with the biased estimator, ...);
  - state kept on an object or module between two phases of the SAME call (an attribute set in one phase and read in another,
    a buffer reused across rounds, a cache that is invalidated one step too late or too early).
  (Diagnostics that misbehave only under DEBUG logging have been used several times already: do not use the logging level.)
  Also consider: a change that is right for every input the library itself produces but wrong for a state or table a caller
  builds by hand or restores from disk; an error or warning path (`warnings.warn`, `np.errstate`, an exception translated into
  another one); behaviour tied to the *second* round of the main loop or to the round in which the loop stops; numerics that
  are exact for small magnitudes and wrong for |x| > 1e154 or < 1e-154 (squares overflow / underflow).

Already used (do not repeat these mechanisms or their near variants):

{chr(10).join(taken) if taken else '- (none yet)'}

For each change write a small demonstration program (plain Python) that exits non-zero / raises AssertionError WITH the change
and exits 0 on the unchanged code, run as `cd {wt} && PYTHONPATH={wt}/src /venv/bin/python seed/<x>/demo.py`. The demo must
check the property's statement directly (independent recomputation / brute force / invariants), not merely compare with the old
implementation's output, and should finish in under two minutes.

## Notes

- {HINTS[pid]}
- Calls to `_verif.emit(...)` and the module `fast_ticc/_verif.py` are inert instrumentation: leave them as they are.
- The library prints its arguments to stdout on every run; that is normal. The front ends use the global NumPy RNG
  (np.random.seed) and Python's `random`. Small runs (30-100 rows, 1-3 sensors, window 1-4, 2-4 clusters, iteration_limit 1-5,
  min_cluster_size 2-5) take well under a second.

## Deliverables (for x in a, b), all inside the worktree

- `{wt}/seed/x/patch.diff` - `git diff` of ONLY that change against the unchanged worktree (must apply with `git apply` to a clean
  checkout); revert the tree before making the other change so the two patches are independent.
- `{wt}/seed/x/demo.py`
- `{wt}/seed/x/meta.json` - {{"property": "{pid}", "summary": "what was changed", "needs": "what specific condition makes it
  manifest", "ran": ["commands you ran and their outcome: full suite with the change, demo with and without the change"]}}

Finish with the working tree clean apart from `seed/` and `TASK.md` (`git status --short`). In your final message list the two
changes in one line each and confirm the three outcomes (tests pass with the change, demo fails with it, demo passes without).
"""
    open(wt + '/TASK.md', 'w').write(task)
print("tasks written")
