#!/usr/bin/env python3
"""Sensitivity aid: run a check against a scratch copy of the repository with one textual mutation.

  tools/mut.py <relative/file.py> '<old text>' '<new text>' -- C01 quick [--only sub]
  tools/mut.py --patch some.diff -- C01 quick

The copy lives under /tmp and is removed afterwards; /repo is never touched.  Evidence is not rewritten.
"""
import os, shutil, subprocess, sys, tempfile

def main():
    args = sys.argv[1:]
    i = args.index("--")
    spec, rest = args[:i], args[i + 1:]
    here = os.path.dirname(os.path.dirname(os.path.abspath(__file__)))
    tmp = tempfile.mkdtemp(prefix="mut_", dir="/tmp")
    try:
        dst = os.path.join(tmp, "repo")
        shutil.copytree("/repo", dst, ignore=shutil.ignore_patterns(".git", "__pycache__", "docs", "tests"))
        if spec[0] == "--patch":
            subprocess.check_call(["patch", "-p1", "-s", "-d", dst, "-i", os.path.abspath(spec[1])])
        else:
            while spec:
                f, old, new = spec[:3]
                spec = spec[3:]
                p = os.path.join(dst, f)
                s = open(p).read()
                if s.count(old) < 1:
                    print("mutation target not found:", old, file=sys.stderr)
                    return 3
                open(p, "w").write(s.replace(old, new, 1))
        env = dict(os.environ, VERIF_REPO=dst)
        return subprocess.call([os.path.join(here, "check")] + rest + ["--no-evidence"], env=env)
    finally:
        shutil.rmtree(tmp, ignore_errors=True)

sys.exit(main())
