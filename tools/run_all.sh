#!/bin/sh
# run every claimed check's quick (or $1) tier sequentially; print one line per check
TIER=${1:-quick}
cd "$(dirname "$0")/.."
for id in $(python3 -c "import json;print(' '.join(c['property_id'] for c in json.load(open('MANIFEST.json'))['checks']))"); do
  s=$(date +%s)
  ./check $id $TIER > .work/last_$id.log 2>&1
  rc=$?
  e=$(date +%s)
  echo "$id rc=$rc $((e-s))s $(grep -c '^VIOLATION' .work/last_$id.log) violations; $(grep -c '^KNOWN-FINDING' .work/last_$id.log) known; $(head -1 .work/last_$id.log | cut -c1-120)"
done
