#!/usr/bin/env python3
import json,sys,glob
for f in sorted(glob.glob('/verif/.work/seedeval/*.json')) if len(sys.argv)<2 else sys.argv[1:]:
    try:
        d=json.loads(open(f).read().strip().splitlines()[-1])
    except Exception as e:
        print('==',f,'unparsable', open(f).read()[-300:]); continue
    print('==',f.split('/')[-1], {k:d.get(k) for k in ('demo_clean_rc','patch_applies','tests_rc','tests_tail','demo_patched_rc')})
    for c,v in d.get('checks',{}).items(): print('   ',c,d.get('tier'),'rc',v['rc'],v['wall_s'],'s',v['lines'][:2],v['other'])
