#!/usr/bin/env python3
"""Copy the latest evaluation of each seeded change next to it (eval.json) and regenerate seeded/INDEX.md."""
import glob, json, os
HERE = os.path.dirname(os.path.dirname(os.path.abspath(__file__)))
rows = []
for d in sorted(glob.glob(os.path.join(HERE, "seeded", "C*", "*"))):
    if not os.path.isdir(d):
        continue
    pid, x = d.split(os.sep)[-2:]
    ev_src = os.path.join(HERE, ".work", "seedeval", f"{pid}_{x}.json")
    ev_dst = os.path.join(d, "eval.json")
    if os.path.exists(ev_src):
        try:
            new = json.loads(open(ev_src).read().strip().splitlines()[-1])
            old = json.load(open(ev_dst)) if os.path.exists(ev_dst) else {}
            for k in ("tests_rc", "tests_tail", "tests_s"):      # keep the test-suite confirmation from an earlier full evaluation
                if k not in new and k in old:
                    new[k] = old[k]
            hist = old.get("history", [])
            if old.get("checks") and old.get("checks") != new.get("checks"):
                hist.append({"checks": old["checks"], "tier": old.get("tier")})
            new["history"] = hist
            new["seed"] = f"seeded/{pid}/{x}"
            json.dump(new, open(ev_dst, "w"), indent=1)
        except Exception as e:
            print("cannot read", ev_src, e)
    meta = json.load(open(os.path.join(d, "meta.json"))) if os.path.exists(os.path.join(d, "meta.json")) else {}
    ev = json.load(open(ev_dst)) if os.path.exists(ev_dst) else {}
    rows.append((pid, x, meta, ev))
with open(os.path.join(HERE, "seeded", "INDEX.md"), "w") as f:
    f.write("# Seeded breaking changes (written by independent sub-agents from the property text only)\n\n"
            "Each directory holds `patch.diff` (applies to /repo HEAD), `demo.py` (fails with the patch, passes without), `meta.json` (the\n"
            "author's description) and `eval.json` (my confirmation: pinned test suite with the patch, demo with/without, and what the\n"
            "registered check reported against a scratch worktree with the patch applied, via `tools/seed_eval.py`). `history` in eval.json keeps\n"
            "the result of earlier evaluations, i.e. before a check was strengthened.\n\n"
            "| seed | change | needs | tests with patch | demo clean / patched | caught by (tier) |\n|---|---|---|---|---|---|\n")
    for pid, x, meta, ev in rows:
        caught = []
        for c, v in (ev.get("checks") or {}).items():
            if v.get("rc") == 1:
                line = next((l for l in v.get("lines", []) if "violation in" in l), "")
                sub = line.split("violation in ")[1].split(" [")[0] if "violation in " in line else "?"
                caught.append(f"{c}:{sub} ({ev.get('tier')}, {v.get('wall_s')} s)")
            else:
                caught.append(f"{c}: NOT caught ({ev.get('tier')}, rc={v.get('rc')})")
        was = ""
        if ev.get("history"):
            was = " — before strengthening: " + "; ".join(
                ", ".join(f"{c} rc={v.get('rc')}" for c, v in h["checks"].items()) for h in ev["history"])
        f.write(f"| {pid}/{x} | {str(meta.get('summary', ''))[:300].replace('|', '/')} | {str(meta.get('needs', ''))[:260].replace('|', '/')} | "
                f"{ev.get('tests_tail', '?')} | {ev.get('demo_clean_rc', '?')} / {ev.get('demo_patched_rc', '?')} | {'; '.join(caught)}{was} |\n")
print("INDEX.md written:", len(rows), "seeds")
