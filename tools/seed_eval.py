#!/usr/bin/env python3
"""Confirm and evaluate one seeded change.

    tools/seed_eval.py <dir with patch.diff, demo.py, meta.json> <property id> [--tier quick|thorough] [--skip-tests] [--checks C01,C15]

Steps (in a fresh scratch worktree of /repo under /tmp, removed afterwards; /repo itself is never modified):
  1. demo on the unchanged tree must exit 0
  2. patch must apply; full pinned test suite must pass with it
  3. demo with the patch must exit non-zero
  4. the property's check (and any extra checks) run against the patched tree via VERIF_REPO; report VIOLATION / exit code
Prints a JSON summary on the last line.
"""
import json
import os
import shutil
import subprocess
import sys
import tempfile
import time


def sh(cmd, cwd=None, env=None, timeout=None):
    p = subprocess.run(cmd, cwd=cwd, env=env, stdout=subprocess.PIPE, stderr=subprocess.STDOUT, text=True, timeout=timeout)
    return p.returncode, p.stdout


def main():
    args = sys.argv[1:]
    seed_dir, pid = os.path.abspath(args[0]), args[1]
    tier = "quick"
    skip_tests = "--skip-tests" in args
    checks = [pid]
    for i, a in enumerate(args):
        if a == "--tier":
            tier = args[i + 1]
        if a == "--checks":
            checks = args[i + 1].split(",")
    here = os.path.dirname(os.path.dirname(os.path.abspath(__file__)))
    wt = tempfile.mkdtemp(prefix=f"ev_{pid}_", dir="/tmp")
    os.rmdir(wt)
    out = {"seed": seed_dir, "property": pid, "tier": tier}
    try:
        rc, o = sh(["git", "-C", "/repo", "worktree", "add", "-q", "--detach", wt, "HEAD"])
        if rc:
            print(o)
            return 2
        env = dict(os.environ, PYTHONPATH=os.path.join(wt, "src"), PYTHONDONTWRITEBYTECODE="1")
        env.pop("FAST_TICC_VERIF", None)
        demo = os.path.join(seed_dir, "demo.py")
        rc, o = sh(["/venv/bin/python", demo], cwd=wt, env=env, timeout=1800)
        out["demo_clean_rc"] = rc
        if rc:
            out["demo_clean_tail"] = o[-600:]
        rc, o = sh(["git", "-C", wt, "apply", os.path.join(seed_dir, "patch.diff")])
        if rc:
            # written against an earlier /repo HEAD: fall back to the commit the author worked from
            base = None
            for i, a_ in enumerate(args):
                if a_ == "--base":
                    base = args[i + 1]
            for b in ((base.split(",") if base else []) + ["b83760a", "0e8f22c"]):
                sh(["git", "-C", wt, "checkout", "-q", "--detach", b])
                out["base"] = b
                rc, o = sh(["git", "-C", wt, "apply", os.path.join(seed_dir, "patch.diff")])
                if rc == 0:
                    break
        out["patch_applies"] = rc == 0
        if rc:
            out["apply_error"] = o[-400:]
            print(json.dumps(out))
            return 1
        if not skip_tests:
            t0 = time.time()
            rc, o = sh(["/venv/bin/python", "-m", "pytest", "-q", "-p", "no:cacheprovider", "--timeout=900"], cwd=wt,
                       env={k: v for k, v in os.environ.items() if k != "FAST_TICC_VERIF"}, timeout=3600)
            out["tests_rc"] = rc
            out["tests_tail"] = o.strip().splitlines()[-1] if o.strip() else ""
            out["tests_s"] = round(time.time() - t0)
        rc, o = sh(["/venv/bin/python", demo], cwd=wt, env=env, timeout=1800)
        out["demo_patched_rc"] = rc
        out["demo_patched_tail"] = o.strip()[-300:]
        out["checks"] = {}
        for c in checks:
            t0 = time.time()
            rc, o = sh([os.path.join(here, "check"), c, tier, "--no-evidence"], cwd=here, env=dict(os.environ, VERIF_REPO=wt), timeout=6 * 3600)
            viol = [l for l in o.splitlines() if l.startswith("VIOLATION") or l.strip().startswith("violation in")]
            out["checks"][c] = {"rc": rc, "wall_s": round(time.time() - t0), "lines": [v[:260] for v in viol[:4]],
                                "other": [l[:200] for l in o.splitlines() if "ERROR" in l or "DEGENERATE" in l][:3]}
    finally:
        sh(["git", "-C", "/repo", "worktree", "remove", "--force", wt])
        shutil.rmtree(wt, ignore_errors=True)
    print(json.dumps(out))
    return 0


sys.exit(main())
