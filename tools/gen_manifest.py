#!/usr/bin/env python3
"""Regenerate /verif/MANIFEST.json from the table below + the property modules that exist.

A property is claimed iff props/<id>.py exists and it has an entry in CLAIMS; every other id from
properties.jsonl goes to not_applicable with the reason in NOT_CLAIMED (or a default)."""
import json
import os
import sys

HERE = os.path.dirname(os.path.dirname(os.path.abspath(__file__)))

HOOK_COMMITS = ["296d2e2"]

CLAIMS = {
    "C01": dict(
        technique="property-based testing (Hypothesis) against an exact brute-force / independent forward-Viterbi oracle, JIT and interpreted kernels",
        text=("Generated cost tables and switching costs (exact dyadic class with zero tolerance, generic floats with an a-priori "
              "rounding bound, ties, T=1, K=1, K up to 300, T up to 400) are fed to the labelling kernel in separate JIT and "
              "interpreted processes; the exact cost of the returned sequence is compared with the exact optimum (exhaustive "
              "K^T enumeration where feasible, otherwise an independent forward DP that is itself checked against the "
              "enumeration), the reported cost with the exact cost of the returned sequence, and labels are range/type checked. "
              "Exploration, not proof: it samples the input space."),
        note=("Trusted: Python integer arithmetic, the reference DP (cross-checked against brute force on every tiny case). "
              "Class-F tolerance 8*T*eps*(sum_i max_k|c_ik| + sum beta). End-to-end use of the kernel is covered by C06/C07/C09."),
        ref="DESIGN.md section 3, C01",
    ),
}

NOT_CLAIMED = {}


def main():
    props = [json.loads(l) for l in open(os.path.join(HERE, "properties.jsonl"))]
    checks, na = [], []
    for p in props:
        pid = p["id"]
        if pid in CLAIMS and os.path.exists(os.path.join(HERE, "props", f"{pid}.py")):
            c = CLAIMS[pid]
            level = c.get("level", "exploration")
            checks.append({
                "property_id": pid,
                "quick_cmd": f"./check {pid} quick",
                "thorough_cmd": f"./check {pid} thorough",
                "evidence_file": f"evidence/{pid}.json",
                "replay_cmd_template": f"./check {pid} --replay {{path}}",
                "engine": "hypothesis-harness",
                "level_claimed": {"category": level, "text": c["text"], "design_ref": c["ref"]},
                "level_note": c["note"],
                "technique": c["technique"],
            })
        else:
            na.append({"property_id": pid,
                       "reason": NOT_CLAIMED.get(pid, "check not built yet in this session (planned in DESIGN.md section 3); not claimed until it runs")})
    manifest = {
        "version": 1,
        "setup_cmd": "./setup.sh",
        "hooks": {
            "guard": "FAST_TICC_VERIF",
            "enable": "environment variable FAST_TICC_VERIF=1 (exported by ./check); nothing is built: checks import /repo/src in fresh processes",
            "baseline_off_cmd": "cd /repo && env -u FAST_TICC_VERIF /venv/bin/python -m pytest -ra -q -p no:cacheprovider --timeout=900 --continue-on-collection-errors",
            "source_commits": HOOK_COMMITS,
            "add_only": True,
        },
        "engines": [
            {"name": "hypothesis-harness", "path": "harness/main.py",
             "serves_properties": [c["property_id"] for c in checks],
             "kind_free_text": "Hypothesis 6.168 property-based / stateful testing and complete enumeration of finite sub-domains, fanned out over (execution mode x shard) child processes; oracles under harness/oracle"},
        ],
        "checks": checks,
        "not_applicable": na,
        "notes": ("Run from /verif. ./check <id> quick|thorough honours VERIF_SEED; exit 0 held, 1 violation (VIOLATION line + replay file), "
                  "2 machinery fault / inconclusive. Known findings: KNOWN_FINDINGS.txt. Design: DESIGN.md."),
    }
    with open(os.path.join(HERE, "MANIFEST.json"), "w") as f:
        json.dump(manifest, f, indent=1)
    try:
        sys.path.insert(0, os.path.join(HERE, ".deps"))
        import jsonschema
        jsonschema.validate(manifest, json.load(open("/root/.vp/MANIFEST.schema.json")))
        print("MANIFEST.json valid;", len(checks), "claimed,", len(na), "not claimed")
    except ImportError:
        print("MANIFEST.json written (jsonschema not importable: not validated)")


main()
