#!/usr/bin/env python3
"""Regenerate /verif/MANIFEST.json from the table below + the property modules that exist.

A property is claimed iff props/<id>.py exists and it has an entry in CLAIMS; every other id from
properties.jsonl goes to not_applicable with the reason in NOT_CLAIMED (or a default)."""
import json
import os
import sys

HERE = os.path.dirname(os.path.dirname(os.path.abspath(__file__)))

HOOK_COMMITS = ["296d2e2"]
FIX_COMMITS = ["c3309bb", "818282c", "d254f8d", "e48a860", "14c9b1b", "2de9305", "b1e1837", "3e873b6", "69019bf", "6843529", "0e8f22c",
               "379cf04", "336672a", "b83760a, dfae326"]

CLAIMS = {
    "C01": dict(
        technique="property-based testing (Hypothesis) against an exact brute-force / independent forward-Viterbi oracle, JIT and interpreted kernels, float64/float32/int tables; plus a coverage-guided Atheris campaign on the interpreted kernel with the brute-force oracle inside the target",
        text=("Generated cost tables and switching costs (exact dyadic class with zero tolerance, generic floats with an a-priori "
              "rounding bound, ties, T=1, K=1, K up to 300, T up to 400) are fed to the labelling kernel in separate JIT and "
              "interpreted processes; the exact cost of the returned sequence is compared with the exact optimum (exhaustive "
              "K^T enumeration where feasible, otherwise an independent forward DP that is itself checked against the "
              "enumeration), the reported cost with the exact cost of the returned sequence, and labels are range/type checked. "
              "Exploration, not proof: it samples the input space."),
        note=("Trusted: Python integer arithmetic, the reference DP (cross-checked against brute force on every tiny case). "
              "Class-F tolerance 8*T*eps*(sum_i max_k|c_ik| + sum beta). End-to-end use of the kernel is covered by C06/C07/C09."),
        ref="DESIGN.md section 3, C01",
    ),
    "C02": dict(
        technique="property-based testing (Hypothesis) with a KKT-certificate oracle at the solver's stopping point; guarded exit hook for the stop reason",
        text=("Generated covariances (rank-deficient, ill-conditioned, diagonal, AR-like, window covariances, scaled), lambda as "
              "scalar / constant / random symmetric matrix, rho, optional rho-update callback and tolerances are solved through the "
              "public optimiser entry point; whenever the hook says the stopping rule fired the returned matrix must satisfy the "
              "stationarity / subgradient conditions of the block-Toeplitz graphical lasso relaxed by exactly the solver's own "
              "stopping tolerances (derived from the update equations; needs only Theta, S, lambda) with independently enumerated "
              "Toeplitz classes; in the restricted regime the stop rule must fire within budget. Exploration of the input space."),
        note=("Trusted: NumPy eigh for the inverse (its error is bounded explicitly in the slack), the derivation in DESIGN.md C02. "
              "The hook admm_exit supplies iterations and stop reason."),
        ref="DESIGN.md section 3, C02"),
    "C04": dict(
        technique="property-based testing of both front ends on generated runs + complete enumeration of the padding/splitting helpers",
        text=("Generated end-to-end runs (single and joint, unequal series lengths, W odd/even/1) are checked for label-list lengths, "
              "exact -1 margins, label range, MRF count/shape, echoed K and W, and for joint runs that the per-series lists are the "
              "master labelling (run_end hook) cut at the cumulative stacked lengths; helpers enumerated for all small arguments."),
        note="Trusted: the run_end hook for the master labelling. Runs the library refuses (RuntimeError, AssertionError, ValueError) are discarded and counted; a crash with a lookup/attribute/name/type error on a valid input is reported.",
        ref="DESIGN.md section 3, C04"),
    "C05": dict(
        technique="property-based differential testing against a textbook Gaussian log-density (Cholesky log det), kernel level (JIT + interpreted) and on traced runs",
        text=("Hand-built models with SPD precision matrices (NW 1..200, log det steered to +-3000, condition number to 1e8) are "
              "scored by the library's table and per-point functions and compared entrywise with an independent formula under a "
              "condition-number-aware tolerance; on traced runs every round's cost table and all likelihood fields of the result "
              "are recomputed from the hook's model states."),
        note="Trusted: NumPy Cholesky/eigvalsh; tolerance (1e-9 + 4 n^2 eps kappa)(1+|ref|).",
        ref="DESIGN.md section 3, C05"),
    "C06": dict(
        technique="property-based testing of result-field accounting identities on generated runs (multiset/association oracle from reference densities)",
        text=("Completed runs of both front ends (many ending with empty clusters, scalar and per-pair beta, converged or limit) are "
              "checked for cost = -overall LL + within-series switching cost, one likelihood entry per labelled point, overall "
              "sum/mean/median and per-cluster mean/median over exactly the right points. Joint runs that price boundary pairs match "
              "known finding KF1 and are reported as such; anything else is a violation."),
        note="Trusted: association of values to clusters via reference densities under the hook's final model; rel. tolerance 1e-9 of sum|terms|.",
        ref="DESIGN.md section 3, C06"),
    "C08": dict(
        technique="complete enumeration of small size vectors + Hypothesis (random sizes, ties, seeds) + Hypothesis stateful machine over relabel/repopulate histories + coverage-guided Atheris campaign, all against an independent capacity model",
        text=("Repopulation is executed on every size vector of the enumerated finite domain (K<=3 quick / K<=4 thorough, m in 1..3, "
              "sizes 0..3m+2, all spread orders; K=5,m=1 in thorough), on random larger cases with tied spreads, and inside stateful "
              "histories; outcome (error iff capacity shortage, conservation, +m per needy cluster, donor limits, donor order, "
              "bystanders untouched, caller's state unmodified on both paths, determinism in the RNG state) is compared with a "
              "reference model written independently of the code."),
        note="Trusted: the capacity model in harness/oracle/repop_model.py (derived from the property text). exhaustive for the enumerated sub-domain only.",
        ref="DESIGN.md section 3, C08"),
    "C09": dict(
        technique="property-based testing on hook traces of generated runs (trace invariants + exact DP optimality oracle + deterministic re-solve)",
        text=("For generated runs of both front ends the per-phase trace is checked: round count within the limit, phase order, state "
              "chaining, stop exactly at the first repeated labelling, repopulation only when needed, returned labels/cost/MRFs "
              "bitwise those of the last round, MRFs reproducible from that round's covariances, and the returned labelling optimal "
              "(exact DP) for the table and switching cost that were scored, the table being the reference density of the returned model."),
        note="Trusted: guarded phase/run_end/relabel_inputs hooks. Optimality is judged for the beta that reached the labelling step (joint-boundary pricing is C07's).",
        ref="DESIGN.md section 3, C09"),
    "C10": dict(
        technique="property-based testing (Hypothesis) with a bit-level reference construction",
        text=("Generated series with arbitrary 64-bit patterns (NaN payloads, inf, -0.0, subnormals), C/F/strided/read-only layouts, "
              "1..6 series of unequal length: the stacked rows must equal an independently built expectation compared as uint64, "
              "multi-series stacking must be the concatenation, and split+pad must restore per-series lists."),
        note="float64 inputs only (bit-exactness is stated for doubles).",
        ref="DESIGN.md section 3, C10"),
    "C11": dict(
        technique="complete enumeration of the property's finite domain (n<=150; N<=10, W<=14) plus Hypothesis float round trips",
        text=("Every n up to 150 (thorough 400) and every (N,W) up to 10x14 (thorough 14x20) is enumerated: compress/reinflate are "
              "mutually inverse, the closed-form index equals the row-major rank for every (r,c), class position lists partition the "
              "upper triangle with the right sizes and identities against an independently built symbolic block-Toeplitz matrix, and "
              "both index forms agree. The quick tier already covers the whole stated domain."),
        note="Private helper names come from the property's anchors; a missing helper exits 2. Exhaustive for the enumerated sub-check.",
        ref="DESIGN.md section 3, C11"),
    "C12": dict(
        technique="property-based testing on hook traces with a recording stand-in pool; independent sample mean/covariance recomputation",
        text=("In every round of generated runs (with repopulation events, both estimators) each cluster's member set, mean and "
              "covariance are recomputed from the labels entering the statistics phase and compared, and the arguments of every "
              "optimiser call (covariance bit for bit, sparsity weight, W, N) are recorded by substituting the public entry point."),
        note="Trusted: phase hook; synchronous pool stand-in (documented seam). Entry tolerance 1e-10*sqrt(S_ii S_jj).",
        ref="DESIGN.md section 3, C12"),
    "C16": dict(
        technique="property-based differential testing of the reported BIC against an independent formula on generated runs (incl. determinants outside the double range)",
        text=("BIC of generated completed runs (plus wide-scale / NW up to 60 runs whose determinants under/overflow a double) is "
              "recomputed from the run_end model with Cholesky log-determinants and run-length parameter counting; must be finite for PD MRFs."),
        note="Trusted: run_end hook. Joint runs: a run continuing across a series boundary may count once or twice (both accepted).",
        ref="DESIGN.md section 3, C16"),
    "C17": dict(
        technique="property-based differential + metamorphic (translation) testing of the Calinski-Harabasz index, function level and on converged runs",
        text=("The index is recomputed from data and labels with the per-column centroid and compared; translation of each sensor "
              "must not change it. On this tree the implementation centres on the scalar mean of all entries: every distinguishable "
              "case matches that signature exactly and is reported as known finding KF2; any third value is a violation."),
        note="Known finding KF2 open (repair would change pinned regression values). Converged runs with all clusters non-empty only.",
        ref="DESIGN.md section 3, C17"),
    "C03": dict(
        technique="property-based testing (Hypothesis) with a sound positive-definiteness oracle (Cholesky, exact rational LDL^T on failure), optimiser level, floor semantics with boundary-valued eps, and end-to-end degenerate data",
        text=("Covariances spanning 24 orders of magnitude of scale and any rank are solved and the result checked to be finite, exactly "
              "symmetric, PD with finite log-determinant; the covariance floor is exercised with eps equal to the magnitude of entries "
              "actually produced (the only way to hit < vs <=) against a recording pool; end-to-end runs on scaled, duplicated, "
              "constant-sensor data must return finite fields and PD MRFs in every round."),
        note="Runs that raise are outside 'runs that complete' (discarded, counted). PD oracle never rejects a truly PD float matrix.",
        ref="DESIGN.md section 3, C03"),
    "C07": dict(
        technique="complete enumeration of the mask helper's small domain + Hypothesis joint runs judged with the exact DP oracle on hook-observed labelling inputs + differential single-vs-joint front end",
        text=("All tuples of up to 5 (thorough 6) stacked lengths in 1..8 are enumerated for the mask; generated joint runs are checked "
              "for boundary-respecting stacking, for beta x mask reaching the labelling step in every round, and for optimality/cost "
              "under the within-series objective; ticc_joint_labels([X]) is compared bitwise with ticc_labels(X). On this tree the "
              "labelling step receives the unmasked beta (known finding KF1): those runs must be exactly consistent with the "
              "all-pairs objective, otherwise they are violations."),
        note="Known finding KF1 open (repair changes 6 pinned regression outputs). Hook relabel_inputs supplies beta and the cost table.",
        ref="DESIGN.md section 3, C07"),
    "C13": dict(
        technique="Hypothesis stateful (rule-based) machine over the public state containers with a snapshot model + the same invariants at every phase boundary of traced runs",
        text=("Histories of assign / copy-with-fresh-clusters / deep-copy / in-place mutation / repopulate / statistics / optimise / "
              "relabel are generated and after every step every live state must be a partition consistent with its labels, states "
              "not targeted must be unchanged, deep copies must share no memory or list objects (incl. array-valued lambda/beta); "
              "traced runs are checked the same way at each phase boundary, including late in-place mutation of states already handed on."),
        note="In-place mutation is applied only to states that exclusively own their arrays; inverse_covariance (and, in the machine, the log-determinant) are scoring values the labelling phase refreshes on its input.",
        ref="DESIGN.md section 3, C13"),
    "C14": dict(
        technique="property-based testing over generated schedules and call histories: result digests compared across repeat runs, worker counts, injected per-task delays (completion order logged), pristine forked children with/without history, and PYTHONHASHSEED values",
        text=("For generated small runs the SHA-256 of every result field must be identical across: a repeat from equal RNG states; "
              "1..8 workers with multiprocessing on/off; per-task delays that permute the completion order (the realised orders are "
              "logged through a pipe and counted); the same call executed first vs after 0..3 other-shaped calls in children forked "
              "from a process that never called the library (with the real per-call pool and with in-process optimisation so memo "
              "caches really persist), after which the memoised index helpers are re-verified; and processes with different hash seeds."),
        note=("The harness chooses delays, not the OS schedule (limit of the technique for schedules). Bitwise comparison only within one "
              "environment. Optimiser tasks are recognised by their covariance from a clean trace."),
        ref="DESIGN.md section 3, C14"),
    "C15": dict(
        technique="differential property-based testing across three execution-mode worker processes (JIT, NUMBA_DISABLE_JIT, Numba not importable) and across numba thread counts",
        text=("Generated kernel inputs (exact and float cost tables, layouts, dtypes; SPD models up to NW=200) and complete runs are "
              "executed in three persistent workers and compared: exact cases identically, float cases up to the C01 rounding slack "
              "(near-ties discarded and counted), likelihood tables within the condition-number-aware bound and bitwise across "
              "1/2/4/8/16 threads, full runs by labels with divergence localised to the first differing round."),
        note="Thread interleaving is not controlled, only the thread count. Modes are separate processes (Numba reads its configuration at import).",
        ref="DESIGN.md section 3, C15"),
    "C18": dict(
        technique="metamorphic property-based testing: every exactly-equivalent rendering of a hyper-parameter value must give bitwise-identical optimiser output, labelling and end-to-end results",
        text=("A value is rendered as Python float/int, every NumPy real scalar type that holds it exactly, and filled matrices/vectors "
              "(C/F order, narrower exact dtypes); Theta from the optimiser entry point, the labelling phase (JIT and interpreted) and "
              "complete runs (lambda, beta, covariance floor) are compared bit for bit with the Python-float form."),
        note="Forms are used only when conversion is exact. Comparisons are within one process.",
        ref="DESIGN.md section 3, C18"),
    "C19": dict(
        technique="property-based testing with byte-level before/after snapshots of every caller-owned argument over layouts, writability and injected failures",
        text=("Both front ends, the optimiser entry point, the labelling kernel and phase are called with C/Fortran/strided, writable and "
              "read-only arrays, in calls that succeed and calls made to fail (wrong input kind, injected optimiser fault, donor "
              "shortage, non-numeric lambda); bytes (including the whole buffer under a view), dtype, shape, strides, flags and list "
              "identity must be unchanged and read-only inputs must give bitwise the writable result."),
        note="Fault injection through the public optimiser entry point under a synchronous stand-in pool.",
        ref="DESIGN.md section 3, C19"),
    "C20": dict(
        level="fault_enumeration",
        technique="fault enumeration: a fault injected at every (round, cluster) optimisation task and every (phase, round) of seeded runs, under single- and multi-worker pools, plus sampled faults / donor shortage / wrong input kinds; each followed by a clean call",
        text=("For 24 (thorough 120) seeded configurations a clean traced run yields every optimiser task's covariance; each task in "
              "turn is made to raise a picklable exception inside whichever worker receives it, and each phase function in each round "
              "is made to raise in the parent, under Pool(1) and 2-4 workers. The call must raise the original type and message, "
              "return nothing, return within a watchdog, leave no new child process at the moment the exception arrives, and a "
              "following clean call must return bitwise the clean result. A shared counter proves the fault fired."),
        note="Only standard picklable exceptions are injected. The harness decides which task fails, not how the OS schedules the others.",
        ref="DESIGN.md section 3, C20"),
}

NOT_CLAIMED = {}


def main():
    props = [json.loads(l) for l in open(os.path.join(HERE, "properties.jsonl"))]
    checks, na = [], []
    for p in props:
        pid = p["id"]
        if pid in CLAIMS and os.path.exists(os.path.join(HERE, "props", f"{pid}.py")):
            c = CLAIMS[pid]
            level = c.get("level", "exploration")
            checks.append({
                "property_id": pid,
                "quick_cmd": f"./check {pid} quick",
                "thorough_cmd": f"./check {pid} thorough",
                "evidence_file": f"evidence/{pid}.json",
                "replay_cmd_template": f"./check {pid} --replay {{path}}",
                "engine": "hypothesis-harness",
                "level_claimed": {"category": level, "text": c["text"], "design_ref": c["ref"]},
                "level_note": c["note"],
                "technique": c["technique"],
            })
        else:
            na.append({"property_id": pid,
                       "reason": NOT_CLAIMED.get(pid, "check not built yet in this session (planned in DESIGN.md section 3); not claimed until it runs")})
    manifest = {
        "version": 1,
        "setup_cmd": "./setup.sh",
        "hooks": {
            "guard": "FAST_TICC_VERIF",
            "enable": "environment variable FAST_TICC_VERIF=1 (exported by ./check); nothing is built: checks import /repo/src in fresh processes",
            "baseline_off_cmd": "cd /repo && env -u FAST_TICC_VERIF /venv/bin/python -m pytest -ra -q -p no:cacheprovider --timeout=900 --continue-on-collection-errors",
            "source_commits": HOOK_COMMITS,
            "add_only": True,
        },
        "engines": [
            {"name": "hypothesis-harness", "path": "harness/main.py",
             "serves_properties": [c["property_id"] for c in checks],
             "kind_free_text": "Hypothesis 6.168 property-based / stateful testing and complete enumeration of finite sub-domains, fanned out over (execution mode x shard) child processes; oracles under harness/oracle"},
            {"name": "atheris-fuzz", "path": "harness/fuzz.py", "serves_properties": ["C01", "C08"],
             "kind_free_text": "Atheris 3.1 / libFuzzer coverage-guided campaigns over sub-checks that define fuzz_decode (structured decoding of the bytes, semantic oracle inside the target); skipped with a note if atheris is not importable"},
        ],
        "checks": checks,
        "not_applicable": na,
        "notes": ("Run from /verif. ./check <id> quick|thorough honours VERIF_SEED; exit 0 held, 1 violation (VIOLATION line + replay file), "
                  "2 machinery fault / inconclusive. Known findings: KNOWN_FINDINGS.txt. Design: DESIGN.md (section 8 = as built). "
                  "Repository fix commits (all pass the unedited suite): " + ", ".join(FIX_COMMITS) + ". "
                  "Seeded breaking changes and what catches them: seeded/INDEX.md."),
    }
    with open(os.path.join(HERE, "MANIFEST.json"), "w") as f:
        json.dump(manifest, f, indent=1)
    try:
        sys.path.insert(0, os.path.join(HERE, ".deps"))
        import jsonschema
        jsonschema.validate(manifest, json.load(open("/root/.vp/MANIFEST.schema.json")))
        print("MANIFEST.json valid;", len(checks), "claimed,", len(na), "not claimed")
    except ImportError:
        print("MANIFEST.json written (jsonschema not importable: not validated)")


main()
