#!/bin/sh
# Offline setup: make hypothesis / jsonschema / atheris importable for /venv/bin/python
# from /verif/.deps (wheelhouse only, no network).  Idempotent.
set -e
HERE="$(cd "$(dirname "$0")" && pwd)"
PY=/venv/bin/python
WH=/opt/veriftools/wheels
mkdir -p "$HERE/.deps"
need=""
for pkg in hypothesis jsonschema atheris; do
  if ! PYTHONPATH="$HERE/.deps" "$PY" -c "import $pkg" >/dev/null 2>&1; then need="$need $pkg"; fi
done
if [ -n "$need" ]; then
  PIP_NO_INDEX=1 "$PY" -m pip install --quiet --no-index --find-links "$WH" --target "$HERE/.deps" --upgrade $need || {
    echo "setup: pip install failed for:$need (continuing; checks fall back to what /venv provides)" >&2
  }
fi
PYTHONPATH="$HERE/.deps" "$PY" -c "import hypothesis, numpy, numba, sklearn; print('setup ok: hypothesis', hypothesis.__version__)"
