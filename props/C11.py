"""C11 - compressed-matrix and Toeplitz-class index maps are exact bijections (finite domain, enumerated)."""
import numpy as np
from hypothesis import strategies as st

from harness.core import SubCheck, Violation, HarnessError

PROPERTY = "C11"
LEVEL = "exploration"
RULE = ("Complete enumeration. Compression maps: every n in 1..N_MAX (quick 150 = the property's whole stated "
        "domain, thorough 400): a symmetric matrix with pairwise distinct upper-triangle entries compresses to its row-major upper "
        "triangle and re-inflates to itself; every vector of length n(n+1)/2 with distinct entries re-inflates to the "
        "symmetric matrix it denotes and compresses back; the closed-form compressed index of every (r,c), r<=c equals its "
        "row-major rank; the size inversion returns n. Class maps: every (N,W) with N<=N_MAX, W<=W_MAX (quick 10x14 = the stated domain, thorough "
        "14x20): the position lists of all classes (block,row,col) partition the upper triangle, |class| = W-block, all "
        "positions of a class carry the same and distinct classes different identities in an independently built symbolic "
        "block-Toeplitz matrix (symmetric leading block), and the compressed and (row,col) forms name the same positions in "
        "the same order. Because the helpers are memoised, a second sub-check walks the whole (N,W) domain in other query "
        "orders inside one process (W descending, N and W descending, W outer, seeded shuffles). A Hypothesis sub-check adds random finite float matrices. Every enumerated item is non-trivial "
        "except n=1 / (N,W)=(1,1); distinct by construction (one item per n / per (N,W))."
        ' Round trips also for float32/float16/int64/int32/int16/uint8/bool matrices with values up to the type maximum; every sub-check also in a python -O process.'
        ' Two results of one size are kept alive; one pass queries with NumPy integer sizes first in its process.')
ASSUMPTIONS = ["private helper names are taken from the property's anchors; if one disappears the check exits 2 (machinery), not 1",
               "values: float equality (==), so -0.0/+0.0 and NaN payloads are outside the statement; |x| <= 1e300"]

LIMITS = {"quick": (150, 10, 14), "thorough": (400, 14, 20)}


def _mods():
    try:
        from fast_ticc import matrix_compression as mc
        from fast_ticc.admm import unique_values as uv
        for name in ("compress_matrix", "reinflate_matrix", "_full_matrix_size"):
            getattr(mc, name)
        for name in ("_compressed_index", "locations_compressed", "locations_index_slices"):
            getattr(uv, name)
    except (ImportError, AttributeError) as e:
        raise HarnessError(f"anchor helper missing: {e}")
    return mc, uv


def enumerate_cases(tier):
    nmax, Nmax, Wmax = LIMITS[tier]
    for n in range(1, nmax + 1):
        yield {"kind": "compress", "n": n}
    for N in range(1, Nmax + 1):
        for W in range(1, Wmax + 1):
            yield {"kind": "classes", "N": N, "W": W}


def check_compress(n, t):
    mc, uv = _mods()
    m = n * (n + 1) // 2
    # independent row-major ranking of the upper triangle
    rank = {}
    k = 0
    for r in range(n):
        for c in range(r, n):
            rank[(r, c)] = k
            k += 1
    vec = np.arange(1, m + 1, dtype=np.float64) * 1.5 - 7.0        # distinct entries, some negative
    full = np.empty((n, n))
    for (r, c), k in rank.items():
        full[r, c] = vec[k]
        full[c, r] = vec[k]
    got_vec = mc.compress_matrix(full)
    if got_vec.shape != (m,) or not np.array_equal(got_vec, vec):
        raise Violation(f"compress_matrix(n={n}) is not the row-major upper triangle")
    got_full = mc.reinflate_matrix(vec.copy())
    if got_full.shape != (n, n) or not np.array_equal(got_full, full):
        raise Violation(f"reinflate_matrix(n={n}) does not rebuild the symmetric matrix")
    if not np.array_equal(mc.reinflate_matrix(mc.compress_matrix(full)), full):
        raise Violation(f"compress->reinflate is not the identity for n={n}")
    if not np.array_equal(mc.compress_matrix(mc.reinflate_matrix(vec.copy())), vec):
        raise Violation(f"reinflate->compress is not the identity for n={n}")
    size = mc._full_matrix_size(m)
    if isinstance(size, bool) or not isinstance(size, (int, np.integer)) or int(size) != n:
        raise Violation(f"_full_matrix_size({m}) = {size!r}, expected {n}")
    for (r, c), k in rank.items():
        got = uv._compressed_index(r, c, n)
        if isinstance(got, bool) or not isinstance(got, (int, np.integer)) or int(got) != k:
            raise Violation(f"_compressed_index({r},{c},{n}) = {got!r}, expected row-major rank {k}")
    t.add("index_pairs_checked", int(m))
    # coordinates below the diagonal must be rejected, not mapped somewhere
    if n >= 2:
        try:
            uv._compressed_index(n - 1, 0, n)
        except IndexError:
            pass
        except Exception as e:
            raise Violation(f"_compressed_index below the diagonal raised {type(e).__name__}, documented IndexError")
        else:
            raise Violation(f"_compressed_index({n - 1},0,{n}) (below the diagonal) returned a value instead of raising IndexError")


def check_classes(N, W, t):
    mc, uv = _mods()
    n = N * W

    def identity(i, j):      # symbolic block-Toeplitz value of position (i,j), i<=j
        I, J = i // N, j // N
        a, b = i % N, j % N
        if I == J:
            return (0, min(a, b), max(a, b))
        return (J - I, a, b)

    rank = {}
    k = 0
    for r in range(n):
        for c in range(r, n):
            rank[(r, c)] = k
            k += 1
    seen = {}
    class_ident = {}
    ncls = 0
    for b in range(W):
        for r in range(N):
            for c in range(r if b == 0 else 0, N):
                rows, cols = uv.locations_index_slices(b, r, c, N, W)
                comp = uv.locations_compressed(b, r, c, N, W)
                rows, cols, comp = list(rows), list(cols), list(comp)
                if not (len(rows) == len(cols) == len(comp) == W - b):
                    raise Violation(f"class (block {b},row {r},col {c}) of (N={N},W={W}) has {len(rows)}/{len(cols)}/{len(comp)} "
                                    f"positions, expected {W - b}")
                idents = set()
                for (i, j, ci) in zip(rows, cols, comp):
                    if not (0 <= i <= j < n):
                        raise Violation(f"class ({b},{r},{c}) names position ({i},{j}) outside the upper triangle of {n}x{n}")
                    if (i, j) in seen:
                        raise Violation(f"position ({i},{j}) belongs to classes {seen[(i, j)]} and {(b, r, c)} (N={N},W={W})")
                    seen[(i, j)] = (b, r, c)
                    if int(ci) != rank[(i, j)]:
                        raise Violation(f"class ({b},{r},{c}): compressed form names index {ci} but (row,col) form names ({i},{j}) "
                                        f"= index {rank[(i, j)]} (N={N},W={W})")
                    idents.add(identity(i, j))
                if len(idents) != 1:
                    raise Violation(f"class ({b},{r},{c}) of (N={N},W={W}) mixes positions that differ under block-Toeplitz structure: {sorted(idents)[:3]}")
                ident = idents.pop()
                if ident != (b, r, c):
                    raise Violation(f"class requested as (block {b},row {r},col {c}) of (N={N},W={W}) holds the positions of "
                                    f"element {ident} (documented meaning of the arguments: row/column inside block `block`)")
                if ident in class_ident:
                    raise Violation(f"classes {class_ident[ident]} and {(b, r, c)} hold positions that must be equal under block-Toeplitz structure")
                class_ident[ident] = (b, r, c)
                ncls += 1
    if len(seen) != n * (n + 1) // 2:
        missing = [p for p in rank if p not in seen][:3]
        raise Violation(f"classes of (N={N},W={W}) cover {len(seen)} of {n * (n + 1) // 2} upper-triangle positions; e.g. missing {missing}")
    expected_classes = N * (N + 1) // 2 + (W - 1) * N * N
    if ncls != expected_classes:
        raise Violation(f"(N={N},W={W}) has {ncls} classes, expected {expected_classes}")
    t.add("classes_checked", int(ncls))
    t.add("positions_checked", len(seen))


def execute_enum(case, t):
    if case["kind"] == "compress":
        check_compress(case["n"], t)
        t.cls("compress_n")
        if case["n"] >= 2:
            t.mark_nontrivial()
    else:
        check_classes(case["N"], case["W"], t)
        t.cls("class_maps_NW")
        if case["N"] * case["W"] >= 2:
            t.mark_nontrivial()


def enumerate_orders(tier):
    """The helpers are memoised, so what an (N,W) query returns could depend on the queries made before it in the same
    process.  Each case walks the whole stated (N,W) domain (and the compression sizes) in one order."""
    yield {"kind": "order", "order": "numpy_integers"}       # first: its shard's process has answered nothing yet
    yield {"kind": "order", "order": "W_descending"}
    yield {"kind": "order", "order": "N_descending_W_descending"}
    yield {"kind": "order", "order": "W_outer_descending"}
    for k in range(6 if tier == "quick" else 48):
        yield {"kind": "order", "order": f"shuffle-{k}"}


def execute_order(case, t):
    import random
    _, Nmax, Wmax = LIMITS["quick"]          # the property's stated domain
    pairs = [(N, W) for N in range(1, Nmax + 1) for W in range(1, Wmax + 1)]
    o = case["order"]
    if o == "W_descending":
        pairs = [(N, W) for N in range(1, Nmax + 1) for W in range(Wmax, 0, -1)]
    elif o == "N_descending_W_descending":
        pairs = [(N, W) for N in range(Nmax, 0, -1) for W in range(Wmax, 0, -1)]
    elif o == "W_outer_descending":
        pairs = [(N, W) for W in range(Wmax, 0, -1) for N in range(1, Nmax + 1)]
    elif o == "numpy_integers":
        # sizes that come out of an np.arange sweep or an array's shape arithmetic: NumPy integer scalars, not Python ints
        kinds = [np.int64, np.int32, np.intp, np.uint16]
        pairs = [(kinds[(N + W) % 4](N), kinds[(N * W) % 4](W)) for N in range(1, Nmax + 1) for W in range(1, Wmax + 1)]
    else:
        random.Random(int(o.split("-")[1]) + 77).shuffle(pairs)
    sizes = sorted({int(N) * int(W) for (N, W) in pairs}, reverse=True)
    if o == "numpy_integers":
        sizes = [np.int64(n) for n in sizes]
    try:
        for n in sizes[:40]:
            check_compress(n, t)
        for (N, W) in pairs:
            check_classes(N, W, t)
    except Violation as v:
        raise Violation(f"{v.message} [queried in the order '{o}', i.e. after other sizes in the same process]", **v.detail)
    except Exception as e:
        if o != "numpy_integers":
            raise
        raise Violation(f"the index maps cannot be queried with NumPy integer sizes/coordinates (they answer the same query with "
                        f"Python ints): {type(e).__name__}: {str(e)[:200]}")
    t.cls(f"order_{o.split('-')[0]}")
    t.mark_nontrivial({"order": o, "pairs": len(pairs)})


@st.composite
def float_matrix_case(draw):
    n = draw(st.integers(1, 40))
    seed = draw(st.integers(0, 2 ** 32 - 1))
    scale = draw(st.sampled_from([1e-300, 1e-8, 1.0, 1e8, 1e300, "subnormal"]))
    case = {"n": n, "seed": seed, "scale": scale}
    if draw(st.integers(0, 3)) == 0:
        # the same round trip for matrices of another element type, with values up to that type's largest (the maps are index
        # maps: no element type is special, and nothing may be computed in a type that cannot hold twice a diagonal entry)
        case["dtype"] = draw(st.sampled_from(["float32", "float16", "int64", "int32", "int16", "uint8", "bool"]))
        case["near_max"] = draw(st.booleans())
    return case


def _execute_other_dtype(case, t):
    mc, _ = _mods()
    n, dt = case["n"], np.dtype(case["dtype"])
    rng = np.random.default_rng(case["seed"])
    if dt.kind == "f":
        top = float(np.finfo(dt).max) if case["near_max"] else 1.0
        a = (rng.uniform(-1, 1, size=(n, n)) * top).astype(dt)
        if case["near_max"]:
            a[rng.integers(0, n), :] = np.finfo(dt).max        # whole row at the very top, diagonal entry included
    elif dt.kind == "b":
        a = rng.integers(0, 2, size=(n, n)).astype(bool)
    else:
        info = np.iinfo(dt)
        hi = min(int(info.max), 2 ** 31) if case["near_max"] else min(int(info.max), 100)
        lo = max(int(info.min), -hi)
        a = rng.integers(lo, hi, size=(n, n), endpoint=True).astype(dt)
    sym = np.triu(a) + np.triu(a, 1).T if dt.kind != "b" else (np.triu(a) | np.triu(a, 1).T)
    sym = sym.astype(dt)
    before = sym.copy()
    try:
        back = mc.reinflate_matrix(mc.compress_matrix(sym))
    except Exception as e:
        raise Violation(f"compress->reinflate of a symmetric {dt.name} matrix raised {type(e).__name__}: {e}")
    want = before.astype(np.float64)
    if np.shape(back) != want.shape or not np.array_equal(np.asarray(back, dtype=np.float64), want):
        raise Violation(f"compress->reinflate changed a symmetric {dt.name} matrix (n={n}, values up to {'the type maximum' if case['near_max'] else 'small'})")
    if not np.array_equal(sym, before):
        raise Violation("compress_matrix modified its argument")
    t.cls(f"dtype_{dt.name}")
    if n >= 2:
        t.mark_nontrivial()


def execute_float(case, t):
    if case.get("dtype"):
        return _execute_other_dtype(case, t)
    mc, _ = _mods()
    n = case["n"]
    rng = np.random.default_rng(case["seed"])
    if case["scale"] == "subnormal":
        # small integer multiples of the smallest subnormal double (odd and even last bits)
        a = rng.integers(-9, 10, size=(n, n)).astype(np.float64) * 5e-324
        case = dict(case, scale=5e-324)
    else:
        a = rng.uniform(-1, 1, size=(n, n)) * case["scale"]
    sym = np.triu(a) + np.triu(a, 1).T
    back = mc.reinflate_matrix(mc.compress_matrix(sym))
    if back.shape != sym.shape or not np.array_equal(back, sym):
        raise Violation(f"compress->reinflate changed a symmetric float matrix (n={n}, scale={case['scale']})")
    if not np.array_equal(back, back.T):
        raise Violation("re-inflated matrix is not exactly symmetric")
    # two results of the same size alive at once: each call returns its own array
    other = np.triu(a.T * 0.5 + 1.0) + np.triu(a.T * 0.5 + 1.0, 1).T
    c1 = mc.compress_matrix(sym)
    keep1 = np.array(c1, copy=True)
    c2 = mc.compress_matrix(other)
    if c1 is c2 or not np.array_equal(c1, keep1):
        raise Violation(f"the vector returned by compress_matrix changed when another matrix of the same size was compressed (n={n})")
    r1 = mc.reinflate_matrix(c1)
    keepr = np.array(r1, copy=True)
    r2 = mc.reinflate_matrix(c2)
    if r1 is r2 or not np.array_equal(r1, keepr):
        raise Violation(f"the matrix returned by reinflate_matrix changed when another vector of the same size was re-inflated (n={n})")
    v = rng.uniform(-1, 1, size=n * (n + 1) // 2) * case["scale"]
    v0 = v.copy()
    if not np.array_equal(mc.compress_matrix(mc.reinflate_matrix(v)), v0):
        raise Violation(f"reinflate->compress changed a float vector (n={n})")
    if not np.array_equal(v, v0):
        raise Violation("reinflate_matrix modified its argument")
    if n >= 2:
        t.mark_nontrivial()


SUBCHECKS = [
    SubCheck(name="enumerate_all_sizes", enumerate=enumerate_cases, execute=execute_enum, exhaustive=True,
             budget={"quick": 1, "thorough": 1}, shards={"quick": 4, "thorough": 16}, modes=["jit", "pyopt"]),
    SubCheck(name="memoised_helpers_in_other_query_orders", enumerate=enumerate_orders, execute=execute_order, exhaustive=False,
             budget={"quick": 1, "thorough": 1}, shards={"quick": 3, "thorough": 16}, modes=["jit"]),
    SubCheck(name="random_float_round_trip", strategy=float_matrix_case, execute=execute_float,
             budget={"quick": 400, "thorough": 8000}, shards={"quick": 1, "thorough": 4}, modes=["jit", "pyopt"]),
]
