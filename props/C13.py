"""C13 - model state: labels and cluster membership always describe one partition; copies; phases do not mutate inputs."""
import random

import numpy as np
from hypothesis import strategies as st
from hypothesis.stateful import RuleBasedStateMachine, rule, precondition, initialize, invariant

from harness import gen, e2e
from harness.core import SubCheck, Violation, E2E_MODES
from props import common_e2e as ce

PROPERTY = "C13"
LEVEL = "exploration"
RULE = ("(1) Hypothesis stateful machine over the public ModelState/ClusterParameters containers with a dictionary model of "
        "every live state: rules assign labels, copy with fresh clusters (the idiom every phase uses), deep-copy, mutate a copy "
        "(labels and in-place array writes, incl. array-valued lambda/beta), repopulate, update statistics, optimise (tiny NW, "
        "synchronous pool) and relabel; after every step every live state must have K clusters whose member lists are exactly "
        "the sorted indices carrying that label (a partition), states that were not the target of the step must be unchanged "
        "(labels, membership, mean, empirical covariance, MRF, fitted covariance, log-determinant, cost), and a deep copy must "
        "share no array memory and no list object with its source. (2) The same partition invariant and input-not-mutated test "
        "at every phase boundary of traced end-to-end runs, where the listener keeps the live objects and re-compares them with "
        "their snapshots at the end of the run. Non-trivial (machine) = a history with a copy followed by a mutation of the copy "
        "or of the source; (traced) = >= 2 rounds; distinct by SHA-1 of the recorded history / case."
        ' States may hold a read-only view of a live buffer; labellings of another length (shorter, longer, empty, same leading labels) are assigned to throw-away copies.'
        ' Mutations may break exact symmetry of a matrix; deep copies are also taken of states whose scalar hyper-parameters are 0-d arrays.')
ASSUMPTIONS = ["in the operation machine the log-determinant is treated like inverse_covariance (a scoring value the labelling phase refreshes on its input); in traced runs it is compared",
               "in-place mutation is applied only to states that exclusively own their arrays (deep copies, or fresh-cluster copies nobody has derived a shallow copy from)",
               "inverse_covariance is a scoring alias that the labelling phase refreshes on its input before use; it is not part of 'fitted statistics'",
               "deep copies are taken of states that carry labels (the library never deep-copies an unlabelled state)"]

SNAP_FIELDS = ("stacked_data_mean", "empirical_covariance", "train_inverse", "computed_covariance")


def check_partition_snap(snap, K, T, who):
    if snap["n_clusters"] != K:
        raise Violation(f"{who}: {snap['n_clusters']} clusters, expected {K}")
    labels = snap["labels"]
    if labels is None or len(labels) != T:
        raise Violation(f"{who}: {None if labels is None else len(labels)} labels for {T} points")
    members = [[] for _ in range(K)]
    for i, v in enumerate(labels):
        if not 0 <= v < K:
            raise Violation(f"{who}: label {i} = {v} outside [0,{K})")
        members[v].append(i)
    for k in range(K):
        if snap["clusters"][k]["members"] != members[k]:
            raise Violation(f"{who}: member list of cluster {k} ({len(snap['clusters'][k]['members'])} entries) is not the sorted set of "
                            f"points labelled {k} ({len(members[k])} points)")


def check_deep_copy(src, cp):
    if cp is src:
        raise Violation("deep_copy returned the same object")
    if cp.point_labels is src.point_labels:
        raise Violation("deep copy shares the label list with its source")
    if list(cp.point_labels) != list(src.point_labels):
        raise Violation("deep copy has different labels")
    if cp.clusters is src.clusters:
        raise Violation("deep copy shares the cluster list with its source")
    for k, (a, b) in enumerate(zip(src.clusters, cp.clusters)):
        if a is b:
            raise Violation(f"deep copy shares cluster object {k}")
        if a.member_points is b.member_points and len(a.member_points) > 0:
            raise Violation(f"deep copy shares the member list of cluster {k}")
        if list(a.member_points) != list(b.member_points):
            raise Violation(f"deep copy has a different member list for cluster {k}")
        for f in e2e.ARRAY_FIELDS:
            va, vb = getattr(a, f), getattr(b, f)
            if isinstance(va, np.ndarray) and va.dtype != object:
                if not isinstance(vb, np.ndarray) or va.shape != vb.shape or not np.array_equal(va, vb, equal_nan=True):
                    raise Violation(f"deep copy differs in {f} of cluster {k}")
                if np.shares_memory(va, vb):
                    raise Violation(f"deep copy shares the memory of {f} of cluster {k} with its source")
    for name in ("stacked_training_data", "point_log_likelihood"):
        va, vb = getattr(src, name), getattr(cp, name)
        if isinstance(va, np.ndarray) and isinstance(vb, np.ndarray) and va.size and np.shares_memory(va, vb):
            raise Violation(f"deep copy shares {name} with its source")
    if cp.arguments is src.arguments:
        raise Violation("deep copy shares the arguments object with its source")
    for name in ("sparsity_weight", "label_switching_cost"):
        va, vb = getattr(src.arguments, name), getattr(cp.arguments, name)
        if isinstance(va, np.ndarray):
            if not isinstance(vb, np.ndarray) or not np.array_equal(va, vb):
                raise Violation(f"deep copy differs in the hyper-parameter {name}")
            if np.shares_memory(va, vb):
                raise Violation(f"deep copy shares the array-valued hyper-parameter {name} with its source")
        elif va != vb:
            raise Violation(f"deep copy differs in the hyper-parameter {name}")


# ----------------------------------------------------------------------------- the machine

class Driver:
    """Executes a recorded history step by step (shared by the Hypothesis machine and by --replay)."""

    def __init__(self, t):
        self.t = t
        self.states = []          # live ModelState objects
        self.snaps = []           # their last known snapshots
        self.owned = []
        self.copied = False
        self.mutated_after_copy = False

    def start(self, K, N, W, T, seed, lam_matrix, beta_vector, biased, m):
        from fast_ticc.containers import arguments, model_state
        rng = np.random.default_rng(seed)
        self.K, self.N, self.W, self.T = K, N, W, T
        nw = N * W
        self.data = rng.normal(size=(T, nw)) + rng.integers(0, 3, size=(T, 1)) * 2.0
        lam = np.full((nw, nw), 0.11) if lam_matrix else 0.11
        beta = np.full(T, 1.5) if beta_vector else 1.5

        if beta_vector:
            # free transitions (exact zeros), among them at both ends of the chain; the pattern follows from the case seed
            for pos, bit in ((0, 1), (1, 2), (T - 2, 4), (T - 1, 8), (T // 2, 16), (T // 2 + 1, 16)):
                if (seed >> 3) & bit:
                    beta[pos] = 0.0
        args = arguments.UserArguments(sparsity_weight=lam, iteration_limit=5, label_switching_cost=beta, min_cluster_size=m,
                                       min_meaningful_covariance=0, num_clusters=K, num_processors=1, window_size=W,
                                       biased_covariance=biased)
        held = self.data
        if (seed >> 9) & 1:
            # the state holds a read-only window onto a buffer its creator can still write to (a frozen view, a memory map):
            # "read-only" is a property of the view, not of the memory, so a deep copy has to copy it all the same
            held = self.data.view()
            held.flags.writeable = False
            self.t.cls("state_holds_read_only_view_of_live_buffer")
        s = model_state.ModelState.empty_model(args, held)
        labels = [int(v) for v in rng.integers(0, K, size=T)]
        s.point_labels = labels
        self._add(s, "deep")
        self._check_all("start", target=None)

    def _add(self, s, owned=None):
        # owned: "deep" (nothing shared), "clusters" (cluster objects/arrays are private, arguments shared), None (shares arrays)
        self.states.append(s)
        self.snaps.append(e2e.snap_state(s))
        self.owned.append(owned)

    def _check_all(self, op, target, new_index=None):
        for i, s in enumerate(self.states):
            snap = e2e.snap_state(s)
            check_partition_snap(snap, self.K, self.T, f"state {i} after '{op}'")
            if i != target and i != new_index:
                d = e2e.states_equal(self.snaps[i], snap, SNAP_FIELDS, logdet=False)
                if d is not None:
                    raise Violation(f"'{op}' on state {target} changed {d} of state {i}, which it was not given to modify"
                                    if target is not None else f"'{op}' changed {d} of state {i}")
            self.snaps[i] = snap

    def step(self, op):
        kind = op["op"]
        i = op.get("i", 0) % len(self.states)
        if len(self.states) >= 24 and kind not in ("mutate", "reassign_in_place"):
            return               # keep histories bounded
        s = self.states[i]
        rng = np.random.default_rng(op.get("seed", 0))
        if kind == "assign":
            labels = [int(v) for v in rng.integers(0, self.K, size=self.T)]
            if op.get("drop") is not None:
                d = op["drop"] % self.K
                labels = [(d + 1) % self.K if v == d else v for v in labels]
            # assignment is only legitimate on a state that owns its clusters (phases always copy first)
            s2 = s.shallow_copy()
            s2.clusters = [c.deep_copy() for c in s2.clusters]
            s2.point_labels = labels
            if [int(v) for v in s2.point_labels] != labels:
                raise Violation("assigned labelling is not what the state reports")
            # a labelling for another number of points (the model is being applied to a shorter / longer series) that starts
            # like the one the state already holds: on a throw-away copy, so that the history keeps one length
            s3 = s.shallow_copy()
            s3.clusters = [c.deep_copy() for c in s3.clusters]
            cur = [int(v) for v in s3.point_labels]
            how = int(rng.integers(0, 4))
            other = cur[:max(0, len(cur) - 1 - int(rng.integers(0, 5)))] if how < 2 else (cur + cur[:1 + int(rng.integers(0, 5))] if how == 2 else [])
            s3.point_labels = list(other)
            got = [int(v) for v in s3.point_labels]
            if got != other:
                raise Violation(f"a labelling of {len(other)} points was assigned to a state holding {len(cur)} labels (same leading labels); "
                                f"the state now reports {len(got)} labels")
            check_partition_snap(e2e.snap_state(s3), self.K, len(other), "state after assigning a labelling of another length")
            self.t.cls("assigned_labelling_of_another_length")
            self._add(s2, "clusters")
            self.copied = True
            self._check_all("copy with fresh clusters + assign labels", target=i, new_index=len(self.states) - 1)
        elif kind == "reassign_in_place":
            if self.owned[i] is None:
                return
            labels = [int(v) for v in rng.integers(0, self.K, size=self.T)]
            s.point_labels = labels
            if self.copied:
                self.mutated_after_copy = True
            self.snaps[i] = e2e.snap_state(s)
            self._check_all("assign labels in place", target=i)
        elif kind == "deep_copy":
            cp = s.deep_copy()
            check_deep_copy(s, cp)
            if op.get("i", 0) % 2 == 0:
                # the same for a state whose scalar hyper-parameters are held as 0-d arrays (mutable like any array, ndim 0 like
                # a scalar); a throw-away state: the phases are never run on it
                import dataclasses
                s0 = s.shallow_copy()
                a0 = s.arguments.deep_copy()
                for name in ("sparsity_weight", "label_switching_cost"):
                    if not isinstance(getattr(a0, name), np.ndarray):
                        try:
                            setattr(a0, name, np.array(float(getattr(a0, name))))
                        except dataclasses.FrozenInstanceError:
                            a0 = dataclasses.replace(a0, **{name: np.array(float(getattr(a0, name)))})
                s0.arguments = a0
                check_deep_copy(s0, s0.deep_copy())
                self.t.cls("deep_copy_with_0d_array_hyper_parameters")
            self._add(cp, "deep")
            self.copied = True
            self._check_all("deep copy", target=i, new_index=len(self.states) - 1)
        elif kind == "mutate":
            # in-place writes into everything state i owns; nobody else may notice
            if self.owned[i] is None:
                return
            for c in s.clusters:
                for f in e2e.ARRAY_FIELDS:
                    v = getattr(c, f)
                    if isinstance(v, np.ndarray) and v.dtype.kind == "f" and v.size and v.flags.writeable:
                        v += 1.0
                        if v.ndim == 2 and v.shape[0] >= 2 and (op.get("i", 0) & 1):
                            v[0, 1] += 2.0 ** -20          # no longer bit-exactly symmetric (a restored or hand-built state)
            for name in ("sparsity_weight", "label_switching_cost"):
                v = getattr(s.arguments, name)
                if isinstance(v, np.ndarray) and self.owned[i] == "deep" and self._owns_arguments(i):
                    v += 0.25
            if self.copied:
                self.mutated_after_copy = True
            self.snaps[i] = e2e.snap_state(s)
            self._check_all("in-place mutation of a copy", target=i)
        elif kind in ("repopulate", "statistics", "optimize", "relabel"):
            self._phase(kind, i, op)
        elif kind == "pipeline":
            # statistics -> optimise -> relabel (-> repopulate), each on the previous output, as one round of the main loop does
            n0 = len(self.states)
            self._phase("statistics", i, op)
            if len(self.states) > n0:
                n1 = len(self.states)
                self._phase("optimize", n1 - 1, op)
                if len(self.states) > n1:
                    n2 = len(self.states)
                    self._phase("relabel", n2 - 1, op)
                    if len(self.states) > n2 and op.get("then_repopulate"):
                        self._phase("repopulate", len(self.states) - 1, op)
        else:
            raise ValueError(kind)

    def _owns_arguments(self, i):
        a = self.states[i].arguments
        return all(o.arguments is not a for j, o in enumerate(self.states) if j != i)

    def _phase(self, kind, i, op):
        import multiprocessing
        from fast_ticc import cluster_maintenance, graphical_lasso, cluster_label_assignment
        s = self.states[i]
        cl = s.clusters
        if kind == "repopulate" and any(c.computed_covariance is None or not isinstance(c.computed_covariance, np.ndarray)
                                        or c.computed_covariance.dtype.kind != "f" for c in cl):
            return
        if kind == "optimize" and any(not isinstance(c.empirical_covariance, np.ndarray) or c.empirical_covariance.dtype.kind != "f"
                                      or not np.all(np.isfinite(c.empirical_covariance)) for c in cl):
            return
        if kind == "relabel" and any(not isinstance(c.train_inverse, np.ndarray) or c.train_inverse.dtype.kind != "f"
                                     or not isinstance(c.stacked_data_mean, np.ndarray) or c.stacked_data_mean.dtype.kind != "f"
                                     or not np.all(np.isfinite(c.train_inverse)) for c in cl):
            return
        if kind == "statistics" and any(c.size == 0 for c in cl):
            return
        random.seed(op.get("seed", 0))
        saved = multiprocessing.Pool
        try:
            if kind == "repopulate":
                out = cluster_maintenance.repopulate_empty_clusters(s)
            elif kind == "statistics":
                out = cluster_maintenance.update_all_cluster_statistics(s, self.data)
            elif kind == "optimize":
                out = graphical_lasso.optimize_markov_random_fields(s, self.data, e2e.SyncPool())
            else:
                out = cluster_label_assignment.predict_cluster_labels(s, self.data)
        except (RuntimeError, AssertionError, np.linalg.LinAlgError) as e:
            # a phase may refuse (no donor, one-member cluster, singular input); its input must still be intact
            self.t.cls(f"phase_{kind}_refused")
            self._check_all(f"{kind} (raised {type(e).__name__})", target=None)
            return
        finally:
            multiprocessing.Pool = saved
        self.t.cls(f"phase_{kind}")
        d = e2e.states_equal(self.snaps[i], e2e.snap_state(s), SNAP_FIELDS, logdet=False)
        if d is not None:
            raise Violation(f"phase '{kind}' altered {d} of the state it was given")
        if out is not s:
            if kind in ("repopulate", "relabel"):
                self._add(out, "clusters")
            else:
                # statistics / optimise hand on shallow copies: input and output legitimately share arrays from now on
                self.owned[i] = None
                self._add(out, None)
            self.copied = True
            self._check_all(kind, target=None, new_index=len(self.states) - 1)
        else:
            self._check_all(kind, target=None)


OPS = st.one_of(
    st.fixed_dictionaries({"op": st.just("assign"), "i": st.integers(0, 7), "seed": st.integers(0, 2 ** 31), "drop": st.one_of(st.none(), st.integers(0, 3))}),
    st.fixed_dictionaries({"op": st.just("reassign_in_place"), "i": st.integers(0, 7), "seed": st.integers(0, 2 ** 31)}),
    st.fixed_dictionaries({"op": st.just("deep_copy"), "i": st.integers(0, 7)}),
    st.fixed_dictionaries({"op": st.just("mutate"), "i": st.integers(0, 7)}),
    st.fixed_dictionaries({"op": st.sampled_from(["repopulate", "statistics", "optimize", "relabel", "statistics", "optimize", "relabel"]),
                           "i": st.integers(0, 7), "seed": st.integers(0, 2 ** 31)}),
    st.fixed_dictionaries({"op": st.just("pipeline"), "i": st.integers(0, 7), "seed": st.integers(0, 2 ** 31), "then_repopulate": st.booleans()}),
    st.fixed_dictionaries({"op": st.just("pipeline"), "i": st.integers(0, 7), "seed": st.integers(0, 2 ** 31), "then_repopulate": st.booleans()}),
)


def machine_factory(tally, fail):
    class StateHistories(RuleBasedStateMachine):
        def __init__(self):
            super().__init__()
            self.trace = []
            self.driver = Driver(tally)

        def _do(self, fn, rec):
            self.trace.append(rec)
            try:
                fn()
            except Violation as v:
                fail.case, fail.violation = {"trace": list(self.trace)}, v
                tally.frozen = True
                raise

        @initialize(K=st.integers(2, 4), N=st.integers(1, 2), W=st.integers(1, 2), T=st.integers(8, 40), seed=st.integers(0, 2 ** 31),
                    lam_matrix=st.booleans(), beta_vector=st.booleans(), biased=st.booleans(), m=st.integers(1, 4))
        def start(self, **kw):
            tally.begin({"trace": self.trace})
            rec = dict(kw, op="start")
            self._do(lambda: self.driver.start(**kw), rec)

        @rule(op=OPS)
        def step(self, op):
            self._do(lambda: self.driver.step(op), op)

        def teardown(self):
            if self.driver.copied and self.driver.mutated_after_copy:
                tally._cur_case = {"trace": list(self.trace)}
                tally._cur_digest = None
                tally.mark_nontrivial({"steps": len(self.trace), "live_states": len(self.driver.states)})
            if len(self.driver.states) > 1:
                tally.cls("histories_with_copies")

    return StateHistories


def execute_trace(case, t):
    d = Driver(t)
    for step in case["trace"]:
        if step["op"] == "start":
            kw = {k: v for k, v in step.items() if k != "op"}
            d.start(**kw)
        else:
            d.step(step)
    t.mark_nontrivial()


# ----------------------------------------------------------------------------- traced half

def execute_e2e(case, t):
    # the states a run went through are examined even when the run raised later on (a phase that hands on a state which is
    # not a partition usually makes the *next* phase fail); only then is the run set aside as "did not complete"
    tr = e2e.run(case, sync_pool=True, record_admm=False)
    K = case["K"]
    if tr.begin is not None:
        T = len(tr.begin["stacked"])
        check_partition_snap(tr.begin["initial"], K, T, "initial state")
        for r, q in enumerate(tr.rounds):
            for name, ph in q["phases"].items():
                check_partition_snap(ph["before"], K, T, f"round {r}: input of {name}")
                check_partition_snap(ph["after"], K, T, f"round {r}: output of {name}")
    if not tr.ok:
        t.discard(f"run raised {type(tr.exc).__name__}: {str(tr.exc)[:70]}")
    if tr.end is None or tr.begin is None:
        raise Violation("run returned a result without passing through the main loop's begin/end hooks")
    check_partition_snap(tr.end["model"], K, T, "final state")
    late = e2e.late_mutations(tr)
    if late:
        raise Violation("a phase altered a state it had been given: " + "; ".join(late[:3]))
    ce.classify(tr, t)
    if tr.end["rounds"] >= 2:
        t.mark_nontrivial(ce.brief_result(tr))


def execute_e2e_multiworker(case, t):
    """The same partition / no-mutation check on a run with the library's own multi-worker pool, with per-task delays that
    make later clusters' tasks finish first."""
    import os
    from harness import faults
    from props.C20 import plain_run, _reap, clean_reference
    cfg = {k: v for k, v in case.items() if k not in ("workers", "delays_ms")}
    ref = clean_reference(cfg)
    if ref is None:
        t.discard("run does not complete")
    K = cfg["K"]
    delays = [(ref["S"][r][k], case["delays_ms"][k % 4] / 1000.0) for r in range(ref["rounds"]) for k in range(K)]
    with faults.Installed(faults.delaying_admm):
        faults.arm_delays(delays)
        tr, left, to = plain_run(dict(cfg, num_processors=case["workers"]), case["workers"], max(120.0, 200 * ref["wall"]), t)
    _reap(left)
    if to or not tr.ok:
        t.discard("multi-worker run did not complete (C14/C20 decide that)")
    T = len(tr.begin["stacked"])
    for r, q in enumerate(tr.rounds):
        for name, ph in q["phases"].items():
            check_partition_snap(ph["after"], K, T, f"round {r}: output of {name} ({case['workers']} workers, delays {case['delays_ms'][:K]} ms)")
    check_partition_snap(tr.end["model"], K, T, "final state")
    late = e2e.late_mutations(tr)
    if late:
        raise Violation("a phase altered a state it had been given: " + "; ".join(late[:3]))
    t.cls(f"workers_{case['workers']}")
    t.mark_nontrivial(ce.brief_result(tr))


@st.composite
def multiworker_case(draw):
    cfg = draw(gen.e2e_config(front=("single", "joint"), max_N=2, max_W=2, max_K=4, t_range=(30, 60), limits=(2, 3), lam_forms=("scalar",),
                              beta_forms=("scalar",), betas=(0.5, 2.0, 10.0)))
    cfg["workers"] = draw(st.integers(2, 4))
    cfg["delays_ms"] = [draw(st.sampled_from([0, 10, 25, 40])) for _ in range(4)]
    cfg["reuse_buffers"] = False
    cfg["prior_calls_on_same_arrays"] = False
    cfg["prior_run_override"] = None        # the per-task delays are armed for the call under test
    return cfg


def _pinned_long():
    # many rows x several clusters: index arithmetic in narrow integer types (uint16 labels of the interpreted kernel) shows here
    return [{"front": "single", "N": 1, "W": 1, "K": 5, "lengths": [14000], "regimes": 5, "mean_spread": 4.0, "data_seed": 21, "np_seed": 21,
             "py_seed": 21, "beta": 1.0, "beta_form": "scalar", "lam": 0.11, "lam_form": "scalar", "limit": 2, "m": 5, "biased": False,
             "eps": 0, "num_processors": 1, "boundary_regime_flip": False, "short_segments": True, "outliers": 0}]


def _pinned_traces():
    base = {"op": "start", "K": 3, "N": 1, "W": 2, "T": 20, "seed": 4, "lam_matrix": True, "beta_vector": True, "biased": False, "m": 2}
    return [{"trace": [base, {"op": "deep_copy", "i": 0}, {"op": "mutate", "i": 1}]},
            {"trace": [base, {"op": "statistics", "i": 0, "seed": 1}, {"op": "optimize", "i": 1, "seed": 1}, {"op": "relabel", "i": 2, "seed": 1},
                       {"op": "deep_copy", "i": 3}, {"op": "mutate", "i": 4}, {"op": "repopulate", "i": 3, "seed": 2}]}]


SUBCHECKS = [
    SubCheck(name="state_operation_histories", strategy=machine_factory, execute=execute_trace, stateful=True, pinned=_pinned_traces,
             budget={"quick": 160, "thorough": 6000}, shards={"quick": 16, "thorough": 16}, modes=["nojit"]),
    SubCheck(name="phase_boundaries_multiworker_permuted_completion", strategy=multiworker_case, execute=execute_e2e_multiworker,
             budget={"quick": 32, "thorough": 1200}, shards={"quick": 8, "thorough": 16}, modes={"quick": ["nojit"], "thorough": ["nojit", "jit"]},
             shrink={"quick": False, "thorough": False}),
    SubCheck(name="phase_boundaries_very_long_run", enumerate=lambda tier: _pinned_long(), execute=execute_e2e,
             budget={"quick": 1, "thorough": 1}, shards={"quick": 1, "thorough": 1}, modes={"quick": ["nojit"], "thorough": ["nojit", "jit"]}),
    SubCheck(name="phase_boundaries_of_traced_runs", strategy=lambda: gen.e2e_config(betas=(0.0, 0.5, 2.0, 10.0, 50.0, 400.0)),
             execute=execute_e2e, budget={"quick": 128, "thorough": 3000}, shards={"quick": 16, "thorough": 8}, modes=E2E_MODES,
             min_nontrivial_fraction=0.3),
]
