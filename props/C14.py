"""C14 - results are reproducible and independent of process scheduling and of earlier calls."""
import atexit
import os
import select
import time

import numpy as np
from hypothesis import strategies as st

from harness import gen, e2e, faults
from harness.core import SubCheck, Violation, HarnessError
from harness.rpcworker import Worker, WorkerOpError, _run_summary
from props.C20 import plain_run, _reap, clean_reference

PROPERTY = "C14"
LEVEL = "exploration"
RULE = ("Hypothesis draws small run configurations (K in 2..4, NW<=12, both front ends) together with a schedule: worker "
        "count 1..8, multiprocessing off/on, a vector of per-task delays (0..30 ms) injected by substituting a delaying wrapper "
        "for the public optimiser entry point (inherited by the forked workers; each task is recognised by its covariance from "
        "a clean trace, and its completion is logged through a pipe), and a history of 0..3 preceding calls with other shapes. "
        "Oracle: a SHA-256 over every field of the result (floats as bytes) must equal that of the reference execution from "
        "equal RNG seeds: (a) repeat in the same process; (b) every schedule variant in the same process; (c) history "
        "independence: the call executed first in a child forked from a process that imported the library but never called it "
        "versus the same call after the history in another such child, after which the memoised index helpers are compared "
        "with the independent enumeration of C11; (d) the same call in processes with PYTHONHASHSEED 1 and 2. Non-trivial = "
        "the logged completion order differs from submission order in some round, or the history is non-empty, or >= 2 "
        "workers; the number of distinct completion permutations realised is reported. Distinct by SHA-1 of the case."
        ' Separately: NW = 240 runs (matrices large enough for a threaded BLAS to change kernels) with 1 vs 2/3/4/8 workers must agree bit for bit.'
        ' A 4700-row run is repeated from equal RNG states.')
ASSUMPTIONS = ["the harness chooses delays, not the OS schedule; with K<=4 tasks all K! completion orders are reachable and those realised are counted",
               "bitwise comparison only between executions in the same environment (same machine, libraries, thread settings)"]

_W = {}


def helper_workers():
    if not _W:
        mode = "nojit" if os.environ.get("NUMBA_DISABLE_JIT") else "jit"
        _W["pristine"] = Worker(mode, env={"PYTHONHASHSEED": "0"})
        _W["hs1"] = Worker(mode, env={"PYTHONHASHSEED": "1"})
        _W["hs2"] = Worker(mode, env={"PYTHONHASHSEED": "2"})
        atexit.register(lambda: [w.close() for w in _W.values()])
    return _W


@st.composite
def schedule_case(draw):
    cfg = draw(gen.e2e_config(front=("single", "single", "joint"), max_N=3, max_W=4, max_K=4, t_range=(30, 70), limits=(1, 2, 3, 5),
                              betas=(0.0, 0.5, 2.0, 10.0, 100.0), lam_forms=("scalar", "const_matrix"), allow_degenerate=True))
    nvar = draw(st.integers(1, 3))
    variants = []
    for _ in range(nvar):
        variants.append({"workers": draw(st.integers(1, 8)), "mp": draw(st.booleans()),
                         "delays_ms": [draw(st.sampled_from([0, 0, 5, 10, 20, 30])) for _ in range(4)],
                         "delay_rounds": draw(st.sampled_from(["first", "all"]))})
    hist = []
    for _ in range(draw(st.integers(0, 3))):
        h = draw(gen.e2e_config(front=("single", "joint"), max_N=3, max_W=4, max_K=4, t_range=(30, 50), limits=(1, 2),
                                betas=(1.0, 10.0), lam_forms=("scalar", "const_matrix")))
        hist.append(h)
    # earlier calls that look almost like the call under test: same data with another sparsity weight / switching cost, and
    # other data of the same shape from the same RNG seeds (module-level memo tables keyed too coarsely show here)
    base = {k: v for k, v in cfg.items()}
    kind = draw(st.sampled_from(["none", "same_data_other_lambda", "same_shape_other_data", "both", "failed_call_same_data", "failed_call_same_data"]))
    if kind == "failed_call_same_data":
        # the same data and seeds with another sparsity weight, in a call that raises after its first (or second) optimisation
        hist.append(dict(base, lam=0.5 if base["lam"] != 0.5 else 0.01, lam_form="scalar", limit=max(base["limit"], 2),
                         fail_in_relabel_of_round=draw(st.sampled_from([0, 0, 1]))))
    if kind in ("same_data_other_lambda", "both"):
        hist.append(dict(base, lam=0.5 if base["lam"] != 0.5 else 0.01, lam_form="scalar", beta=base["beta"] + 1.0))
    if kind in ("same_shape_other_data", "both"):
        hist.append(dict(base, data_seed=(base["data_seed"] + 1) % (2 ** 31), sensor_scales=[3.0] * base["N"]))
    cfg["prior_run_override"] = None        # histories are this check's own, explicit dimension
    for h in hist:
        h["prior_run_override"] = None
    cfg["variants"] = variants
    cfg["history"] = hist
    cfg["check_hashseed"] = True
    if draw(st.integers(0, 2)) == 0:
        # several clusters collapse: repopulation of >= 2 clusters, the place where set iteration order could matter
        cfg["K"] = 4
        cfg["regimes"] = 1
        cfg["beta"] = 100.0
        cfg["limit"] = max(cfg["limit"], 3)
        cfg["m"] = 2
    return cfg


def _digest_of(tr):
    import hashlib
    from props.C19 import _digest_any
    d = _digest_any(tr.result)
    h = hashlib.sha256()
    for k in sorted(d):
        v = d[k]
        h.update(k.encode())
        if isinstance(v, bytes):
            h.update(v)
        elif isinstance(v, list):
            for x in v:
                h.update(x if isinstance(x, bytes) else repr(x).encode())
        else:
            h.update(repr(v).encode())
    return h.hexdigest()


def execute(case, t):
    cfg = {k: v for k, v in case.items() if k not in ("variants", "history", "check_hashseed")}
    ref = clean_reference(cfg)            # synchronous pool, records S_{r,k}
    if ref is None:
        t.discard("run does not complete")
    timeout = max(120.0, 200.0 * ref["wall"])
    tr0, left, to = plain_run(cfg, 1, timeout, t)
    _reap(left)
    if to or not tr0.ok:
        raise Violation(f"the run completes with a synchronous pool but {'hangs' if to else 'raises ' + type(tr0.exc).__name__} with the library's own single-process pool")
    d0 = _digest_of(tr0)
    # (a) repeat
    tr1, left, to = plain_run(cfg, 1, timeout, t)
    _reap(left)
    if to or not tr1.ok or _digest_of(tr1) != d0:
        raise Violation("two runs on equal inputs from equal RNG states returned different results")
    nontrivial = False
    perms = set()
    # (b) schedules
    K = cfg["K"]
    for v in case["variants"]:
        workers = v["workers"] if v["mp"] else 1
        delays = []
        rounds = range(ref["rounds"]) if v["delay_rounds"] == "all" else range(1)
        for r in rounds:
            for k in range(K):
                delays.append((ref["S"][r][k], v["delays_ms"][k % 4] / 1000.0))
        rfd, wfd = os.pipe()
        os.set_blocking(rfd, False)
        try:
            with faults.Installed(faults.delaying_admm):
                faults.arm_delays(delays, log_fd=wfd)
                # worker count is only honoured when multiprocessing is enabled; the request itself is still passed on
                run_cfg = dict(cfg, num_processors=v["workers"])
                if v["mp"]:
                    tr, left, to = plain_run(run_cfg, v["workers"], timeout, t)
                else:
                    tr, left, to = _plain_run_mp_off(run_cfg, timeout)
            log = b""
            while True:
                try:
                    chunk = os.read(rfd, 65536)
                except BlockingIOError:
                    break
                if not chunk:
                    break
                log += chunk
        finally:
            os.close(rfd)
            os.close(wfd)
        _reap(left)
        if to:
            raise Violation(f"run with {v['workers']} worker(s), multiprocessing {'on' if v['mp'] else 'off'} did not return")
        if not tr.ok:
            raise Violation(f"run with {v['workers']} worker(s), multiprocessing {'on' if v['mp'] else 'off'} raised {type(tr.exc).__name__}: {str(tr.exc)[:100]}")
        if _digest_of(tr) != d0:
            raise Violation(f"result depends on the schedule: {v['workers']} worker(s), multiprocessing {'on' if v['mp'] else 'off'}, "
                            f"delays {v['delays_ms'][:K]} ms give a different result than the single-process run")
        order = list(log)
        for r in rounds:
            seg = [i - r * K for i in order if r * K <= i < (r + 1) * K]
            if len(seg) == K:
                perms.add(tuple(seg))
                if seg != sorted(seg):
                    nontrivial = True
                    t.cls("completion_order_permuted")
        if v["mp"] and v["workers"] >= 2:
            nontrivial = True
            t.cls("workers>=2")
        t.cls("mp_on" if v["mp"] else "mp_off")
    t.max("distinct_completion_orders_in_one_case", len(perms))
    for p in perms:
        t.cls("order_" + "".join(str(i) for i in p))
    # (c) history independence, in pristine forked children
    ws = helper_workers()
    try:
        fresh = ws["pristine"].call("e2e_pristine", cfg=cfg, history=[], workers=1)
        if case["history"]:
            after = ws["pristine"].call("e2e_pristine", cfg=cfg, history=case["history"], workers=1)
        else:
            after = None
    except WorkerOpError as e:
        raise HarnessError(f"pristine worker failed: {e}")
    if not fresh["ok"]:
        raise Violation(f"the run completes here but raises {fresh.get('exc')} as the first call of a fresh process")
    if after is not None:
        nontrivial = True
        t.cls("with_history")
        if not after["ok"]:
            raise Violation(f"after {len(case['history'])} earlier call(s) with other shapes the run raises {after.get('exc')}")
        if after["digest"] != fresh["digest"]:
            raise Violation(f"result depends on earlier calls in the same process ({len(case['history'])} preceding call(s) with other shapes)")
        if not after["caches"]["ok"]:
            raise Violation(f"memoised index helpers are corrupted after the call history: {after['caches']['message']}")
        # the same with the optimiser running in-process (synchronous stand-in pool), so that its memo caches really
        # survive from one call to the next instead of dying with the per-call worker processes
        try:
            fresh0 = ws["pristine"].call("e2e_pristine", cfg=cfg, history=[], workers=0)
            after0 = ws["pristine"].call("e2e_pristine", cfg=cfg, history=case["history"], workers=0)
        except WorkerOpError as e:
            raise HarnessError(f"pristine worker failed: {e}")
        if not (fresh0["ok"] and after0["ok"]) or after0["digest"] != fresh0["digest"]:
            raise Violation(f"with in-process optimisation the result depends on earlier calls ({len(case['history'])} preceding call(s) with other shapes)")
        if not after0["caches"]["ok"]:
            raise Violation(f"memoised index helpers are corrupted after the call history: {after0['caches']['message']}")
        if fresh0["digest"] != fresh["digest"]:
            raise Violation("in-process optimisation gives a different result than the single-worker pool")
    # the in-process digest is over the same fields as the worker's: compare through a second in-process summary
    here = _run_summary(cfg, 1)
    if here["digest"] != fresh["digest"]:
        raise Violation("the run in this (long-lived) process differs from the same run as the first call of a fresh process")
    # (d) hash seed
    if case["check_hashseed"]:
        a = ws["hs1"].call("e2e_pristine", cfg=cfg, history=[], workers=1)
        b = ws["hs2"].call("e2e_pristine", cfg=cfg, history=[], workers=1)
        if not (a["ok"] and b["ok"]) or a["digest"] != b["digest"] or a["digest"] != fresh["digest"]:
            raise Violation("result depends on PYTHONHASHSEED (set/dict iteration order)")
        t.cls("hashseed_compared")
    t.cls(f"front_{cfg['front']}")
    if nontrivial:
        t.mark_nontrivial({"rounds": ref["rounds"], "variants": case["variants"], "history_calls": len(case["history"]),
                           "completion_orders": sorted("".join(str(i) for i in p) for p in perms)})


def _plain_run_mp_off(cfg, timeout):
    saved = os.environ.pop("CUPCAKE_ENABLE_MULTIPROCESSING", None)
    try:
        # plain_run(workers=1) clears the variable and forces num_processors=1; here the requested count must stay
        import multiprocessing
        import signal
        from props.C20 import _alarm, Watchdog
        before = set(p.pid for p in multiprocessing.active_children())
        old = signal.signal(signal.SIGALRM, _alarm)
        signal.setitimer(signal.ITIMER_REAL, timeout)
        tr, timed_out = None, False
        try:
            tr = e2e.run(cfg, sync_pool=False, record_admm=False)
        except Watchdog:
            timed_out = True
        finally:
            signal.setitimer(signal.ITIMER_REAL, 0)
            signal.signal(signal.SIGALRM, old)
        left = [p for p in multiprocessing.active_children() if p.pid not in before]
        return tr, left, timed_out
    finally:
        if saved is not None:
            os.environ["CUPCAKE_ENABLE_MULTIPROCESSING"] = saved


def _large_cases(tier):
    base = {"front": "joint", "N": 3, "W": 80, "K": 2, "lengths": [420, 400], "regimes": 2, "mean_spread": 4.0, "data_seed": 11,
            "np_seed": 11, "py_seed": 11, "beta": 50.0, "beta_form": "scalar", "lam": 0.11, "lam_form": "scalar", "limit": 1,
            "m": 5, "biased": False, "eps": 0, "num_processors": 1, "boundary_regime_flip": False}
    yield dict(base, worker_counts=[4, 2])
    yield dict(base, front="single", N=4, W=60, lengths=[700], data_seed=12, worker_counts=[8, 3])
    # a long series (more rows than any sub-sampling or chunking threshold is likely to be): twice from the same RNG states
    yield dict(base, front="single", N=2, W=2, K=3, lengths=[4700], regimes=3, beta=5.0, limit=2, m=5, data_seed=14,
               worker_counts=[1, 2], short_segments=True)
    if tier == "thorough":
        yield dict(base, N=6, W=50, lengths=[500, 480], data_seed=13, worker_counts=[2, 5, 16])
        yield dict(base, front="joint", N=1, W=1, K=2, lengths=[5000, 4200], regimes=2, beta=2.0, limit=2, data_seed=15, worker_counts=[1, 3])


def execute_large(case, t):
    """Matrices large enough (NW = 240 ... 300) for a multi-threaded BLAS to choose other kernels: the result with the library's
    pool of w workers must be the bits of the single-process result, whatever w is."""
    cfg = {k: v for k, v in case.items() if k != "worker_counts"}
    tr0, left, to = plain_run(cfg, 1, 1200.0, t)
    _reap(left)
    if to or not tr0.ok:
        t.discard("the single-process run did not complete")
    d0 = _digest_of(tr0)
    for w in case["worker_counts"]:
        tr, left, to = plain_run(dict(cfg, num_processors=w), w, 1200.0, t)
        _reap(left)
        if to:
            raise Violation(f"run with {w} workers (NW={cfg['N'] * cfg['W']}) did not return")
        if not tr.ok:
            raise Violation(f"run with {w} workers raised {type(tr.exc).__name__}: {str(tr.exc)[:100]}; with one process it completes")
        if _digest_of(tr) != d0 and w == 1:
            raise Violation(f"two single-process runs on equal inputs from equal RNG states returned different results (T={sum(cfg['lengths'])} rows)")
        if _digest_of(tr) != d0:
            diff = max(float(np.max(np.abs(np.asarray(a) - np.asarray(b)))) for a, b in zip(tr.result.markov_random_fields, tr0.result.markov_random_fields))
            raise Violation(f"result depends on the number of worker processes: {w} workers give other bits than one process "
                            f"(NW={cfg['N'] * cfg['W']}, largest MRF difference {diff:.3g})")
        t.cls(f"workers_{w}")
    t.mark_nontrivial({"NW": cfg["N"] * cfg["W"], "worker_counts": case["worker_counts"]})


SUBCHECKS = [
    SubCheck(name="schedules_histories_hashseeds", strategy=schedule_case, execute=execute,
             budget={"quick": 48, "thorough": 800}, shards={"quick": 16, "thorough": 16},
             modes={"quick": ["nojit"], "thorough": ["nojit", "jit"]}, min_nontrivial_fraction=0.3,
             shrink={"quick": False, "thorough": True}),
    SubCheck(name="worker_count_independence_large_matrices", enumerate=_large_cases, execute=execute_large, exhaustive=False,
             budget={"quick": 1, "thorough": 1}, shards={"quick": 2, "thorough": 3}, modes=["jit"], ambient=()),
]
