"""C01 - the labelling step returns a global minimum-cost label sequence (DESIGN.md section 3, C01)."""
import sys
from fractions import Fraction

import numpy as np
from hypothesis import strategies as st

from harness import gen, buffers
from harness.core import SubCheck, Violation
from harness.oracle.viterbi_ref import ExactProblem

PROPERTY = "C01"
LEVEL = "exploration"
RULE = ("Hypothesis-generated (cost table T x K, beta) pairs: class E = multiples of 1/8 (all float sums exact, "
        "tolerance 0, heavy ties from 3-value pools), class F = generic finite doubles over 1e-300..1e300/T with "
        "row-wise scale spreads and 1e16-offset near ties; beta scalar or length-T vector (0, tiny, huge); shapes tiny "
        "(K^T <= 6e4, brute force), small, long (T<=400,K<=12), wide (T<=3, K 200..300); run with the kernel "
        "JIT-compiled and interpreted; one exact case in eight is handed over as a float32 / int64 / int32 table (values exactly "
        "representable) with a possibly fractional beta. Oracle: exact integer-scaled brute force / independent forward Viterbi; the "
        "exact cost of the returned sequence must be <= optimum (+ 8 T eps (sum_i max_k|c_ik| + sum beta) for class F), "
        "the reported cost must equal the exact cost of the returned sequence, labels integral in [0,K). "
        "Non-trivial = T>=2, K>=2 and (the optimum differs from sum_i min_k c_ik, i.e. beta binds, or the returned "
        "sequence switches label); distinct by SHA-1 of the encoded case."
        ' Tables of 4096..9002 rows (forward-DP oracle) and exact tables with a few entries of 2**57 that no optimal path uses are part of the exact class.'
        ' The labelling step itself (predict_cluster_labels on hand-built models, scalar and vector costs with large entries and exact zeros) is judged by the same exact oracle on the table seen at the hook.')
ASSUMPTIONS = [
    "the reference forward Viterbi is itself cross-checked against exhaustive enumeration on every tiny case of the run",
    "class-F slack 8*T*eps*(sum_i max_k|c_ik| + sum beta) is an a-priori rounding bound for a T-step float DP; class E uses no tolerance",
]

EPS = 2.0 ** -52


def _kernel():
    from fast_ticc import cluster_label_assignment as cla
    return cla.assign_point_cluster_labels


def _apply_layout(cost, layout):
    if layout == "F":
        return np.asfortranarray(cost)
    if layout == "strided":
        big = np.zeros((cost.shape[0] * 2, cost.shape[1] * 3), dtype=cost.dtype)
        big[::2, 1::3] = cost
        return big[::2, 1::3]
    if layout == "readonly":
        c = cost.copy()
        c.setflags(write=False)
        return c
    return cost


def check_labelling(cost, beta, labels, reported, cls, t=None, who="kernel"):
    """Shared oracle (also used by C07/C09/C15): raises Violation, returns a dict of observations."""
    T, K = cost.shape
    try:
        n = len(labels)
    except TypeError:
        raise Violation(f"{who}: labels object has no length: {type(labels)}")
    if n != T:
        raise Violation(f"{who}: returned {n} labels for {T} points")
    seq = []
    for i, v in enumerate(labels):
        if isinstance(v, (bool, np.bool_)) or not isinstance(v, (int, np.integer)):
            if isinstance(v, (float, np.floating)) and float(v).is_integer():
                raise Violation(f"{who}: label {i} is a float ({v!r}), not an integer")
            raise Violation(f"{who}: label {i} is not an integer: {v!r} ({type(v).__name__})")
        iv = int(v)
        if not 0 <= iv < K:
            raise Violation(f"{who}: label {i} = {iv} outside [0,{K})")
        seq.append(iv)
    P = ExactProblem(cost, beta)
    got = P.seq_cost(seq)
    brute = None
    if K ** T <= 60000:
        brute = P.brute_force_min()
        fwd = P.forward_viterbi_min()
        if fwd != brute:
            raise RuntimeError("reference Viterbi disagrees with brute force (harness bug)")
        if T * K * K <= 2000 and P.forward_viterbi_min_quadratic() != brute:
            raise RuntimeError("quadratic reference Viterbi disagrees with brute force (harness bug)")
        opt = brute
        if t is not None:
            t.add("reference_checked_against_brute_force")
    else:
        opt = P.forward_viterbi_min()
    if cls == "E":
        slack = Fraction(0)
    else:
        slack = Fraction(8 * T * EPS) * P.magnitude()
    if got - opt > slack:
        raise Violation(f"{who}: returned sequence is not a minimum: exact cost exceeds the optimum by "
                        f"{float(P.to_fraction(got - opt)):.6g} (allowed {float(P.to_fraction(slack)):.3g})",
                        labels=seq[:60], exact_cost=float(P.to_fraction(got)), optimum=float(P.to_fraction(opt)))
    if got < opt:
        raise RuntimeError("returned sequence beats the reference optimum (harness bug)")
    if reported is not None:
        try:
            rep = float(reported)
        except Exception:
            raise Violation(f"{who}: reported cost is not a real number: {reported!r}")
        if rep != rep or rep in (float("inf"), float("-inf")):
            raise Violation(f"{who}: reported cost is not finite: {rep!r}")
        diff = abs(P.scale_float(rep) - got)
        if diff > slack:
            raise Violation(f"{who}: reported cost {rep!r} differs from the exact cost of the returned sequence "
                            f"{float(P.to_fraction(got))!r} by {float(P.to_fraction(diff)):.6g} "
                            f"(allowed {float(P.to_fraction(slack)):.3g})", labels=seq[:60])
    switches = sum(1 for i in range(T - 1) if seq[i] != seq[i + 1])
    binds = opt != P.unconstrained_min()
    return {"switches": switches, "beta_binds": binds, "brute": brute is not None, "seq": seq,
            "slack_used": (float((got - opt) / slack) if slack > 0 else 0.0)}


def execute(case, t):
    cost = np.asarray(case["cost"])
    beta = case["beta"]
    layout = case.get("layout", "C")
    cost_arg = cost
    if case.get("dtype"):
        cost_arg = cost.astype(case["dtype"])          # exact: the generator made every value representable in that dtype
        if not np.array_equal(cost_arg.astype(np.float64), cost):
            raise RuntimeError("harness bug: dtype conversion of the table is not exact")
    cost_arg = _apply_layout(cost_arg, layout)
    beta_arg = np.array(beta, dtype=np.float64) if np.ndim(beta) else float(beta)
    if case.get("reuse_buffers") and layout in ("C", "F"):
        # the same array objects as in earlier calls of this process, refilled in place (what a sweep does)
        cost_arg = buffers.reuse("C01.cost", cost_arg)
        if np.ndim(beta):
            beta_arg = buffers.reuse("C01.beta", beta_arg)
    T, K = cost.shape
    try:
        labels, reported = _kernel()(cost_arg, beta_arg)
    except Exception as e:
        raise Violation(f"labelling kernel raised {type(e).__name__}: {e}")
    obs = check_labelling(cost, beta, labels, reported, case["cls"], t)
    t.cls(f"class_{case['cls']}")
    t.cls(f"shape_{case.get('shape', '?')}")
    t.cls("beta_vector" if np.ndim(beta) else "beta_scalar")
    if layout != "C":
        t.cls(f"layout_{layout}")
    if case.get("dtype"):
        t.cls(f"table_dtype_{case['dtype']}")
    if case.get("reuse_buffers"):
        t.cls("caller_buffers_reused")
    if case.get("huge_entries"):
        t.cls("rows_with_huge_entries")
    if T == 1:
        t.cls("T=1")
    if K == 1:
        t.cls("K=1")
    if np.ndim(beta) == 0 and float(beta) == 0.0:
        t.cls("beta=0")
    if len(np.unique(cost)) < cost.size:
        t.cls("ties_in_table")
    if obs["switches"]:
        t.cls("optimal_path_switches")
    if obs["beta_binds"]:
        t.cls("beta_binds")
    if obs["brute"]:
        t.cls("brute_force")
    if T >= 2 and K >= 2 and (obs["switches"] or obs["beta_binds"]):
        t.mark_nontrivial({"labels": obs["seq"][:40], "reported_cost": float(reported), "switches": obs["switches"]})


def _layout_cases():
    rng = np.random.default_rng(7)
    out = []
    for layout in ("F", "strided", "readonly"):
        for (T, K) in ((5, 3), (60, 4)):
            cost = rng.integers(-800, 800, size=(T, K)) / 8.0
            out.append({"cls": "E", "shape": "pinned", "cost": cost, "beta": 6.5, "layout": layout})
            out.append({"cls": "E", "shape": "pinned", "cost": cost, "beta": (rng.integers(0, 90, size=T) / 8.0), "layout": layout})
    # regression shapes: single point, single cluster, all-equal table
    out.append({"cls": "E", "shape": "pinned", "cost": np.array([[3.0, 1.0, 2.0]]), "beta": 5.0})
    out.append({"cls": "E", "shape": "pinned", "cost": np.array([[3.0], [1.0], [2.0]]), "beta": 5.0})
    out.append({"cls": "E", "shape": "pinned", "cost": np.zeros((6, 4)), "beta": 0.0})
    return out


def fuzz_decode(fdp):
    """bytes -> tiny exact-arithmetic case (brute-force oracle inside the target)."""
    T = fdp.ConsumeIntInRange(1, 7)
    kmax = max(1, min(5, int(60000 ** (1.0 / T))))
    K = fdp.ConsumeIntInRange(1, kmax)
    vector = fdp.ConsumeBool()
    if vector:
        beta = np.array([fdp.ConsumeIntInRange(0, 96) / 8.0 for _ in range(T)])
    else:
        beta = fdp.ConsumeIntInRange(0, 96) / 8.0
    vals = [fdp.ConsumeIntInRange(-40, 40) / 8.0 for _ in range(T * K)]
    return {"cls": "E", "shape": "fuzz", "cost": np.array(vals, dtype=np.float64).reshape(T, K), "beta": beta}


def fuzz_seeds():
    return [bytes([3, 2, 0, 8] + [10, 50, 50, 10, 10, 50]), bytes([5, 3, 1] + [4, 0, 16, 8, 2] + list(range(20, 35))),
            bytes([1, 4, 0, 0, 1, 2, 3, 4]), bytes([6, 2, 0, 96] + [40, 41] * 6), bytes([2, 5, 1, 0, 0] + [7] * 10)]


# ----------------------------------------------------------------------------- the labelling step as the main loop calls it

@st.composite
def phase_case(draw):
    T = draw(st.integers(2, 60))
    kind = draw(st.sampled_from(["scalar", "scalar", "vector_random", "vector_large_with_zeros", "vector_large_with_zeros", "vector_two_levels"]))
    return {"K": draw(st.integers(2, 4)), "n": draw(st.integers(1, 3)), "T": T, "seed": draw(st.integers(0, 2 ** 32 - 1)),
            "beta_kind": kind, "beta": draw(st.sampled_from([0.0, 0.5, 2.0, 8.0, 40.0, 1000.0])),
            "segments": draw(st.integers(1, 4)), "duplicate_cluster": draw(st.sampled_from([False, False, True]))}


def execute_phase(case, t):
    """predict_cluster_labels(model, data): the table it scores (seen through the guarded hook, and recomputed here from the
    likelihood function) and the switching cost held by the model's arguments define the problem; the labelling and cost it
    stores must solve it.  Rounding class: the table is a float computation, so the slack of class F applies."""
    from fast_ticc import cluster_label_assignment, _verif
    from fast_ticc.containers import arguments, model_state
    rng = np.random.default_rng(case["seed"])
    K, n, T = case["K"], case["n"], case["T"]
    # piecewise-constant regimes so that the unconstrained optimum really changes label
    bounds = sorted(set(int(v) for v in rng.integers(1, T, size=case["segments"])))
    reg = np.zeros(T, dtype=int)
    for b in bounds:
        reg[b:] = (reg[b - 1] + 1 + int(rng.integers(0, K - 1))) % K
    data = rng.normal(size=(T, n)) * 0.6 + reg[:, None] * 2.0
    v = float(case["beta"])
    kind = case["beta_kind"]
    if kind == "scalar":
        beta = v
    elif kind == "vector_random":
        beta = np.round(rng.uniform(0, 2, size=T) * v, 3)
    elif kind == "vector_two_levels":
        beta = np.where(rng.integers(0, 2, size=T) == 1, v, v / 8.0)
    else:
        # dominated by large entries, free exactly where the regimes change (what a boundary mask looks like)
        beta = np.full(T, max(v, 40.0))
        for b in bounds:
            beta[b - 1] = 0.0
    args = arguments.UserArguments(sparsity_weight=0.1, iteration_limit=1, label_switching_cost=beta, min_cluster_size=2,
                                   min_meaningful_covariance=0, num_clusters=K, num_processors=1, window_size=1, biased_covariance=False)
    ms = model_state.ModelState.empty_model(args, data)
    ms.point_labels = [i % K for i in range(T)]
    for k in range(K):
        B = rng.normal(size=(n, n)) * 0.3
        ms.clusters[k].train_inverse = B @ B.T + np.eye(n)
        ms.clusters[k].stacked_data_mean = np.full(n, 2.0 * k) + rng.normal(size=n) * 0.1
    if case.get("duplicate_cluster"):
        ms.clusters[K - 1].train_inverse = ms.clusters[0].train_inverse.copy()
        ms.clusters[K - 1].stacked_data_mean = ms.clusters[0].stacked_data_mean.copy()
    seen = []

    def listener(ev, p):
        if ev == "relabel_inputs":
            sc = p["switching_cost"]
            seen.append((np.array(p["cost_table"], copy=True), np.array(sc, copy=True) if isinstance(sc, np.ndarray) else sc))
    _verif.listeners.append(listener)
    try:
        try:
            out = cluster_label_assignment.predict_cluster_labels(ms, data)
        except Exception as e:
            raise Violation(f"labelling step raised {type(e).__name__}: {str(e)[:160]}")
    finally:
        _verif.listeners.remove(listener)
    if len(seen) != 1:
        raise RuntimeError("expected exactly one relabel_inputs event (is FAST_TICC_VERIF set?)")
    table, beta_seen = seen[0]
    b_arg = np.asarray(beta, dtype=np.float64) if isinstance(beta, np.ndarray) else float(beta)
    if isinstance(beta, np.ndarray) != isinstance(beta_seen, np.ndarray) or not np.array_equal(np.asarray(beta_seen, dtype=np.float64), np.asarray(b_arg)):
        raise Violation("the labelling step does not price label changes with the model's own switching cost")
    obs = check_labelling(table, b_arg, [int(x) if isinstance(x, (int, np.integer)) and not isinstance(x, (bool, np.bool_)) else x for x in out.point_labels],
                          out.label_assignment_cost, "F", t, who="labelling step")
    t.cls(f"beta_{kind}")
    if obs["switches"]:
        t.cls("optimal_path_switches")
    if obs["beta_binds"]:
        t.cls("beta_binds")
    if obs["switches"] or obs["beta_binds"]:
        t.mark_nontrivial({"labels": obs["seq"][:40], "switches": obs["switches"], "beta_kind": kind})


SUBCHECKS = [
    SubCheck(
        name="kernel_vs_exact_optimum",
        strategy=lambda: gen.cost_case(dtypes=("float32", "int64", "int32"), very_long=True),
        execute=execute,
        pinned=_layout_cases,
        budget={"quick": 3000, "thorough": 160000},
        shards={"quick": 3, "thorough": 8},
        modes=["jit", "nojit"],
        min_nontrivial_fraction=0.3,
    ),
    SubCheck(name="labelling_step_on_a_model_vs_exact_optimum", strategy=phase_case, execute=execute_phase,
             budget={"quick": 600, "thorough": 30000}, shards={"quick": 3, "thorough": 8}, modes=["jit", "nojit"],
             min_nontrivial_fraction=0.3),
    SubCheck(
        name="kernel_coverage_guided_fuzz",
        execute=execute, fuzz_decode=fuzz_decode, fuzz_seeds=fuzz_seeds,
        budget={"quick": 8000, "thorough": 400000}, shards={"quick": 2, "thorough": 8},
        modes=["nojit"], env={"NUMBA_DISABLE_JIT": "1"},
    ),
]
