"""C15 - Numba acceleration is semantically transparent (JIT / JIT disabled / Numba not importable; thread counts)."""
import atexit
from fractions import Fraction

import numpy as np
from hypothesis import strategies as st

from harness import gen
from harness.core import SubCheck, Violation, HarnessError
from harness.oracle import gaussian_ref
from harness.oracle.viterbi_ref import ExactProblem
from harness.rpcworker import Worker, WorkerOpError
from props import C05

PROPERTY = "C15"
LEVEL = "exploration"
RULE = ("Each generated case is shipped to three persistent worker processes: JIT enabled, NUMBA_DISABLE_JIT=1, and Numba "
        "not importable (sys.modules['numba']=None before the library is imported). (1) Labelling kernel: the cost tables of "
        "C01 (exact class E, float class F) plus layouts (Fortran, strided, read-only) and dtypes (float32, int64 tables with "
        "exactly representable values): class E must give identical labels and cost in all modes; class F identical unless "
        "the two sequences' exact costs differ by less than the C01 rounding slack (near-tie, discarded and counted). (2) "
        "Likelihood table: the SPD models of C05 (NW<=200, log det to +-3000): every mode within the condition-number-aware "
        "bound of the reference density and of each other; in the JIT worker the table is recomputed under "
        "numba.set_num_threads(n), n in {1,2,4,8,16} and must be bitwise identical. (3) Complete runs on generic continuous "
        "data in all three modes must return identical labels; on divergence the first differing round is located and the "
        "case is a violation only if the exact cost gap there exceeds the slack or the scored tables differ beyond the "
        "likelihood tolerance. Non-trivial = (1) T>=2,K>=2 with a switching optimum, (2) NW>=8, (3) >= 2 rounds; distinct by SHA-1."
        ' Complete runs per Numba thread-team size (1,2,7,8,16) must agree in every result field; a third of the cross-mode runs use >f8/float32/>f4/float16 data.')
ASSUMPTIONS = ["thread interleaving is not controlled, only the thread count (numba.set_num_threads)",
               "modes are separate processes because Numba reads its configuration at import"]

EPS = 2.0 ** -52
_W = {}


def workers(thread_env=False):
    key = "threads" if thread_env else "plain"
    if key not in _W:
        env = {"NUMBA_NUM_THREADS": "16", "OMP_NUM_THREADS": None} if thread_env else None
        ws = {m: Worker(m, env=env) for m in (("jit",) if thread_env else ("jit", "nojit", "nonumba"))}
        info = {m: w.call("info") for m, w in ws.items()}
        if not thread_env:
            if not info["jit"]["numba_available"] or info["jit"]["disable_jit"]:
                raise HarnessError("jit worker is not running with Numba JIT enabled")
            if info["nojit"]["disable_jit"] != "1":
                raise HarnessError("nojit worker does not have NUMBA_DISABLE_JIT=1")
            if info["nonumba"]["numba_available"]:
                raise HarnessError("nonumba worker can import numba")
        _W[key] = ws
        atexit.register(lambda: [w.close() for w in ws.values()])
    return _W[key]


# ----------------------------------------------------------------------------- (1) kernel

@st.composite
def kernel_case(draw):
    c = draw(gen.cost_case(shapes=("tiny", "small", "small", "long", "wide")))
    c["layout"] = draw(st.sampled_from(["C", "C", "C", "F", "strided", "readonly"]))
    c["dtype"] = None
    c.pop("reuse_buffers", None)
    if c["cls"] == "E" and draw(st.integers(0, 7)) == 0:
        # tables with NaN / +-inf entries: no optimum is defined for them (outside C01), but the three execution modes run the
        # same IEEE arithmetic and must still return the same labels and the same (possibly non-finite) cost
        cost = np.array(c["cost"], dtype=np.float64, copy=True)
        k = draw(st.integers(1, max(1, cost.size // 4)))
        pos = draw(st.lists(st.integers(0, cost.size - 1), min_size=k, max_size=k))
        vals = draw(st.lists(st.sampled_from([float("nan"), float("inf"), float("-inf"), float("nan")]), min_size=k, max_size=k))
        flat = cost.reshape(-1)
        for p_, v_ in zip(pos, vals):
            flat[p_] = v_
        c["cost"] = cost
        c["cls"] = "N"
        return c
    if c["cls"] == "E" and draw(st.integers(0, 5)) == 0:
        c["dtype"] = draw(st.sampled_from(["float32", "int64"]))
        cost = np.round(np.asarray(c["cost"]))
        c["cost"] = np.clip(cost, -2 ** 20, 2 ** 20)
        if np.ndim(c["beta"]):
            c["beta"] = np.round(np.asarray(c["beta"]))
        else:
            c["beta"] = float(np.round(c["beta"]))
    return c


def execute_kernel(case, t):
    ws = workers()
    cost = np.asarray(case["cost"])
    beta = case["beta"]
    outs = {}
    for m, w in ws.items():
        try:
            outs[m] = w.call("labels", cost=cost, beta=beta, layout=case["layout"], dtype=case["dtype"])
        except WorkerOpError as e:
            raise Violation(f"labelling kernel raised {e.etype} in mode {m} (layout {case['layout']}, dtype {case['dtype'] or 'float64'})")
    ref = outs["nonumba"]
    P = None
    T, K = cost.shape
    for m in ("jit", "nojit"):
        o = outs[m]
        same_cost = np.float64(o["cost"]).tobytes() == np.float64(ref["cost"]).tobytes() or (o["cost"] != o["cost"] and ref["cost"] != ref["cost"])
        if o["labels"] == ref["labels"] and same_cost:
            continue
        if case["cls"] == "N":
            raise Violation(f"table with non-finite entries: mode {m} returns labels/cost different from the Numba-free run "
                            f"(cost {o['cost']!r} vs {ref['cost']!r}; layout {case['layout']})")
        if case["cls"] == "E":
            raise Violation(f"exact-arithmetic case: mode {m} returns labels/cost different from the Numba-free run "
                            f"(cost {o['cost']!r} vs {ref['cost']!r}; layout {case['layout']}, dtype {case['dtype'] or 'float64'})")
        P = P or ExactProblem(cost, beta)
        gap = abs(P.seq_cost(o["labels"]) - P.seq_cost(ref["labels"]))
        slack = Fraction(8 * T * EPS) * P.magnitude()
        if gap > slack or abs(P.scale_float(o["cost"]) - P.scale_float(ref["cost"])) > slack:
            raise Violation(f"mode {m} and the Numba-free run disagree beyond rounding: exact cost gap {float(P.to_fraction(gap)):.4g} "
                            f"(slack {float(P.to_fraction(slack)):.3g})")
        t.discard("near-tie between modes (within rounding slack)")
    t.cls(f"class_{case['cls']}")
    t.cls(f"layout_{case['layout']}")
    if case["dtype"]:
        t.cls(f"dtype_{case['dtype']}")
    sw = sum(1 for a, b in zip(ref["labels"], ref["labels"][1:]) if a != b)
    if case["cls"] == "N":
        t.cls("non_finite_entries")
    if T >= 2 and K >= 2 and sw:
        t.mark_nontrivial({"labels": ref["labels"][:30], "cost": ref["cost"]})


# ----------------------------------------------------------------------------- (2) likelihood table

def execute_ll(case, t):
    ws = workers()
    thetas, means, pts = C05.build_kernel_inputs(case)
    nw = case["nw"]
    ref, kappas, logdets = gaussian_ref.log_density_table(pts, means, thetas)
    tables = {}
    for m, w in ws.items():
        try:
            tables[m] = np.asarray(w.call("ll_table", thetas=thetas, means=means, points=pts, W=case["W"])["table"])
        except WorkerOpError as e:
            raise Violation(f"likelihood table raised {e.etype} in mode {m}")
    for m, tb in tables.items():
        if tb.shape != ref.shape or not np.all(np.isfinite(tb)):
            raise Violation(f"mode {m}: likelihood table has shape {tb.shape} / non-finite entries")
        for k in range(ref.shape[1]):
            tol = gaussian_ref.tolerance(ref[:, k], nw, kappas[k])
            if np.any(np.abs(tb[:, k] - ref[:, k]) > tol):
                raise Violation(f"mode {m}: likelihood table differs from the reference density beyond rounding (cluster {k}, NW={nw})")
            for m2, tb2 in tables.items():
                if np.any(np.abs(tb[:, k] - tb2[:, k]) > 2 * tol):
                    raise Violation(f"modes {m} and {m2} disagree on the likelihood table beyond rounding (cluster {k}, NW={nw})")
    if nw >= 8:
        t.mark_nontrivial({"NW": nw, "K": case["K"], "logdets": [round(x, 1) for x in logdets]})


@st.composite
def thread_case(draw):
    c = draw(C05.kernel_case())
    c["T"] = draw(st.one_of(st.integers(1, 200), st.integers(1, 200), st.sampled_from([1500, 4000, 6061])))
    if c["T"] > 200:
        c["nw"] = min(c["nw"], 6)
        c["W"] = 1
        c["logdet_targets"] = [min(max(x, -50.0), 50.0) for x in c["logdet_targets"]]
    c["hold"] = draw(st.sampled_from([0, 0, 3, 40]))       # sample-and-hold data: runs of identical consecutive windows
    c["points_on_means"] = False
    c["rescore_after_update"] = False
    return c


def execute_threads(case, t):
    w = workers(thread_env=True)["jit"]
    thetas, means, pts = C05.build_kernel_inputs(case)
    if case.get("hold"):
        rng = np.random.default_rng(case["seed"] + 5)
        i = 0
        while i < len(pts):
            run = int(rng.integers(1, case["hold"] + 1))
            pts[i:i + run] = pts[i]
            i += run
    counts = [1, 2, 4, 8, 16]
    try:
        out = w.call("ll_table", thetas=thetas, means=means, points=pts, W=case["W"], threads=counts)
    except WorkerOpError as e:
        raise Violation(f"likelihood table raised {e.etype} under numba.set_num_threads")
    base = np.asarray(out["tables"]["1"])
    for n in counts[1:]:
        tb = np.asarray(out["tables"][str(n)])
        if tb.shape != base.shape or tb.tobytes() != base.tobytes():
            bad = int(np.sum(tb != base)) if tb.shape == base.shape else -1
            raise Violation(f"likelihood table with {n} threads differs from the single-thread table in {bad} entries "
                            f"(T={pts.shape[0]}, NW={case['nw']}, layer {out['layer']})")
    t.cls(f"layer_{out['layer']}")
    if case.get("hold"):
        t.cls("repeated_consecutive_windows")
    # and against the closed form (a value that is wrong for every thread count would otherwise pass)
    ref, kappas, _ = gaussian_ref.log_density_table(np.asarray(pts, dtype=np.float64), means, thetas)
    for k in range(ref.shape[1]):
        tol = gaussian_ref.tolerance(ref[:, k], case["nw"], kappas[k])
        if np.any(np.abs(base[:, k] - ref[:, k]) > tol):
            raise Violation(f"likelihood table under JIT differs from the reference density (cluster {k}, T={pts.shape[0]}, NW={case['nw']})")
    if pts.shape[0] >= 16:
        t.mark_nontrivial({"T": int(pts.shape[0]), "NW": case["nw"], "threads": counts, "layer": out["layer"]})


def execute_e2e_threads(case, t):
    """A complete run per thread-team size: every field of the result (sums and means of the per-point values included) must be
    the same bits, not only the likelihood table."""
    w = workers(thread_env=True)["jit"]
    counts = [1, 2, 7, 8, 16]
    try:
        out = w.call("e2e", cfg=case, workers=0, with_rounds=False, threads=counts)["by_threads"]
    except WorkerOpError as e:
        raise Violation(f"complete run raised {e.etype} under numba.set_num_threads")
    base = out["1"]
    if not base["ok"]:
        t.discard(f"run raised {base['exc']}")
    for n in counts[1:]:
        o = out[str(n)]
        if not o["ok"]:
            raise Violation(f"the run completes with one Numba thread and raises {o['exc']} with {n}")
        if o["digest"] != base["digest"]:
            raise Violation(f"the result with {n} Numba threads differs from the single-thread result (reported cost {o['cost']!r} vs {base['cost']!r}; "
                            "some field is not the same bits)")
    t.mark_nontrivial({"threads": counts, "cost": base["cost"]})


# ----------------------------------------------------------------------------- (3) complete runs

def execute_e2e(case, t):
    ws = workers()
    outs = {}
    for m, w in ws.items():
        outs[m] = w.call("e2e", cfg=case, workers=0)
    oks = {m: o["ok"] for m, o in outs.items()}
    if len(set(oks.values())) > 1:
        raise Violation(f"the run completes in some modes and raises in others: "
                        f"{ {m: (True if o['ok'] else o['exc']) for m, o in outs.items()} }")
    if not outs["nonumba"]["ok"]:
        t.discard(f"run raises in every mode ({outs['nonumba']['exc']})")
    ref = outs["nonumba"]
    nw = case["N"] * case["W"]
    for m in ("jit", "nojit"):
        o = outs[m]
        if o["labels"] == ref["labels"]:
            continue
        # locate the first round whose labelling differs and judge it on the reference mode's own table
        for r, (qa, qb) in enumerate(zip(ref["rounds"], o["rounds"])):
            ta, tb = np.asarray(qa["table"]), np.asarray(qb["table"])
            if ta.shape != tb.shape or np.any(np.abs(ta - tb) > 1e-9 * (1 + np.abs(ta)) + 4 * nw * nw * EPS * 1e6 * (1 + np.abs(ta))):
                raise Violation(f"round {r}: the table scored in mode {m} differs from the Numba-free table beyond rounding")
            if qa["labels"] != qb["labels"]:
                P = ExactProblem(ta, qa["beta"])
                gap = abs(P.seq_cost(qb["labels"]) - P.seq_cost(qa["labels"]))
                slack = Fraction(8 * len(qa["labels"]) * EPS) * P.magnitude() + Fraction(2e-9) * P.magnitude()
                if gap > slack:
                    raise Violation(f"round {r}: mode {m} labels differently from the Numba-free run and the exact cost gap "
                                    f"{float(P.to_fraction(gap)):.4g} exceeds rounding slack {float(P.to_fraction(slack)):.3g}")
                t.discard("near-tie between modes in some round (within rounding slack)")
        raise Violation(f"mode {m} returns different labels although every round's labelling agrees")
    t.cls(f"reason_{ref['reason']}")
    if ref["rounds_n"] >= 2:
        t.mark_nontrivial({"rounds": ref["rounds_n"], "reason": ref["reason"], "cost": ref["cost"]})


def _pinned_e2e_long():
    base = {"front": "single", "N": 1, "W": 1, "K": 5, "lengths": [14000], "regimes": 5, "mean_spread": 4.0, "data_seed": 21, "np_seed": 21,
            "py_seed": 21, "beta": 1.0, "beta_form": "scalar", "lam": 0.11, "lam_form": "scalar", "limit": 2, "m": 5, "biased": False,
            "eps": 0, "num_processors": 1, "boundary_regime_flip": False, "short_segments": True, "outliers": 0}
    return [base, dict(base, K=3, lengths=[23000], regimes=3, data_seed=22)]


def _e2e_strategy():
    return _e2e_base().map(_with_dtype)


def _with_dtype(cfg):
    # a third of the runs on data of another element type / byte order: the modes must still agree (and all complete)
    pick = (cfg["data_seed"] // 7) % 9
    if pick < 4 and not cfg.get("reuse_buffers") and not cfg.get("series_as_views"):
        cfg = dict(cfg, series_dtype=[">f8", "float32", ">f4", "float16"][pick], prior_calls_on_same_arrays=False)
    return cfg


def _e2e_base():
    return gen.e2e_config(front=("single", "single", "joint"), betas=(0.0, 0.5, 2.0, 10.0, 50.0), limits=(1, 2, 3, 5))


SUBCHECKS = [
    SubCheck(name="labelling_kernel_across_modes", strategy=kernel_case, execute=execute_kernel,
             budget={"quick": 1200, "thorough": 40000}, shards={"quick": 4, "thorough": 8}, modes=["jit"], min_nontrivial_fraction=0.2),
    SubCheck(name="likelihood_table_across_modes", strategy=C05.kernel_case, execute=execute_ll,
             budget={"quick": 240, "thorough": 8000}, shards={"quick": 2, "thorough": 4}, modes=["jit"]),
    SubCheck(name="likelihood_table_across_thread_counts", strategy=thread_case, execute=execute_threads,
             budget={"quick": 200, "thorough": 8000}, shards={"quick": 1, "thorough": 4}, modes=["jit"]),
    SubCheck(name="complete_runs_across_thread_counts", strategy=lambda: gen.e2e_config(max_N=2, max_W=3, max_K=3, t_range=(60, 400), limits=(1, 2), lam_forms=("scalar",)),
             execute=execute_e2e_threads, budget={"quick": 24, "thorough": 600}, shards={"quick": 3, "thorough": 4}, modes=["jit"]),
    SubCheck(name="complete_runs_across_modes", strategy=_e2e_strategy, execute=execute_e2e, pinned=_pinned_e2e_long,
             budget={"quick": 64, "thorough": 2000}, shards={"quick": 4, "thorough": 4}, modes=["jit"]),
]
