"""C16 - the Bayesian information criterion matches its definition."""
import math

import numpy as np

from harness import gen
from harness.core import SubCheck, Violation, E2E_MODES
from harness.oracle import gaussian_ref, metrics_ref
from props import common_e2e as ce

PROPERTY = "C16"
LEVEL = "exploration"
RULE = ("Completed traced runs of both front ends: the shared end-to-end generator (N<=3, W<=4) plus a wide variant with "
        "per-sensor scales 1e-6..1e6 and NW up to 60 so that determinants leave the double range. Oracle: from the run_end "
        "model (labels, MRFs, empirical covariances) BIC = P ln T - 2 sum_k (ln det Theta_k - tr(Theta_k S_k)), ln det via "
        "Cholesky, P adding the count of |entries| > 2e-5 of the cluster's MRF for every maximal run of equal consecutive "
        "labels (for joint runs a run continuing across a series boundary may be read as one or two runs: both accepted), "
        "relative tolerance 1e-9 of the sum of absolute terms; the value must be finite whenever all MRFs are PD. "
        "Non-trivial = >= 2 runs of labels and >= 2 clusters used; distinct by SHA-1 of the case."
        " S_k is the covariance cluster k was fitted to: the argument of the optimiser call that produced the stored Theta_k (recorded), normally identical to the state's record."
        ' Pinned: 132000 and 140001 alternating rows (more than 65535 runs of one label).')
ASSUMPTIONS = ["final model state observed through the guarded run_end hook", "runs whose final MRFs are not PD are discarded here and decided by C03"]


def _wide():
    return gen.e2e_config(front=("single", "single", "joint"), max_N=6, max_W=10, max_K=3, t_range=(80, 200), limits=(1, 2, 3),
                          betas=(1.0, 10.0, 100.0), scales=True, lam_forms=("scalar",), beta_forms=("scalar",))


def execute(case, t):
    tr = ce.traced_run(case, t, sync_pool=True, record_admm=True)
    m = tr.end["model"]
    labels = m["labels"]
    K = case["K"]
    thetas = [np.atleast_2d(c["train_inverse"]) for c in m["clusters"]]
    covs = [np.atleast_2d(c["empirical_covariance"]) for c in m["clusters"]]
    # "S_k, the empirical covariance cluster k was fitted to": the matrix the optimiser was actually given when it produced
    # Theta_k (the latest optimiser call whose answer, floor applied, is the stored Theta_k) - normally the state's own record
    from fast_ticc import matrix_compression
    eps = float(case.get("eps") or 0)
    calls = [c for q in reversed(tr.rounds) for c in reversed(q["admm"]) if "theta" in c]
    for k in range(len(thetas)):
        for c in calls:
            th = matrix_compression.reinflate_matrix(np.array(c["theta"], copy=True))
            if eps:
                th = np.where(np.abs(th) >= eps, th, 0.0)
            if th.shape == thetas[k].shape and np.array_equal(th, thetas[k]):
                S_fit = np.atleast_2d(c["S"])
                if S_fit.shape == covs[k].shape and not np.array_equal(S_fit, covs[k], equal_nan=True):
                    t.cls("fitted_covariance_differs_from_the_states_record")
                covs[k] = S_fit
                break
    bic = tr.result.bayesian_information_criterion
    try:
        bic_f = float(bic)
    except Exception:
        raise Violation(f"BIC is not a number: {bic!r}")
    if not all(gaussian_ref.is_pd(th) for th in thetas):
        t.discard("final model has a non-PD MRF (C03's business)")
    if not all(np.all(np.isfinite(S)) for S in covs):
        t.discard("final model has a non-finite empirical covariance")
    if not math.isfinite(bic_f):
        raise Violation(f"BIC is {bic_f!r} although every MRF is positive definite "
                        f"(log dets {[round(gaussian_ref.chol_logdet(th)[0], 1) for th in thetas]})")
    ref = metrics_ref.bic(labels, thetas, covs)
    # magnitude of the terms, for the tolerance
    T = len(labels)
    mag = 0.0
    nz = [int(np.sum(np.abs(th) > 2e-5)) for th in thetas]
    for th, S in zip(thetas, covs):
        mag += abs(gaussian_ref.chol_logdet(th)[0]) + float(np.sum(np.abs(th * S.T)))
    runs = ce.n_switches(labels) + 1
    mag = 2 * mag + sum(nz) * runs * math.log(max(T, 2))
    accept = [ref]
    if len(tr.series) > 1:
        # a run that continues across a series boundary: one run or two
        for i in ce.boundary_indices(tr):
            if labels[i] == labels[i + 1]:
                accept = [a for a in accept] + [a + nz[labels[i]] * math.log(T) for a in accept]
    if not any(abs(bic_f - a) <= 1e-9 * (mag + 1.0) for a in accept):
        raise Violation(f"BIC reported {bic_f!r}, definition gives {ref!r} (T={T}, runs={runs}, nonzero counts {nz})")
    ce.classify(tr, t)
    used = len(set(labels))
    if case.get("eps"):
        t.cls("covariance_floor>0")
    if used < K:
        t.cls("unused_cluster")
    if any(abs(gaussian_ref.chol_logdet(th)[0]) > 700 for th in thetas):
        t.cls("logdet_outside_exp_range")
    if runs >= 2 and used >= 2:
        t.mark_nontrivial({"BIC": bic_f, "runs": runs, "nonzero_counts": nz})


def _pinned_wide():
    base = {"front": "single", "N": 4, "W": 8, "K": 2, "lengths": [150], "regimes": 2, "mean_spread": 2.0, "data_seed": 3,
            "np_seed": 3, "py_seed": 3, "beta": 10.0, "beta_form": "scalar", "lam": 0.11, "lam_form": "scalar", "limit": 2,
            "m": 4, "biased": False, "eps": 0, "num_processors": 1, "boundary_regime_flip": False}
    return [dict(base, sensor_scales=[1e6] * 4), dict(base, sensor_scales=[1e-6] * 4, data_seed=4),
            dict(base, N=6, W=10, lengths=[200], sensor_scales=[1e5, 1e6, 1e5, 1e6, 1e5, 1e6], data_seed=5)]


def _many_runs(tier):
    # more than 2**16 (and, thorough, 2**17) maximal runs of one label: counters of the run loop in a narrow integer type wrap there
    base = {"front": "single", "N": 1, "W": 1, "K": 2, "lengths": [132000], "regimes": 2, "mean_spread": 2.0, "data_seed": 5,
            "np_seed": 5, "py_seed": 5, "beta": 0.0, "beta_form": "scalar", "lam": 0.11, "lam_form": "scalar", "limit": 1,
            "m": 5, "biased": False, "eps": 0, "num_processors": 1, "boundary_regime_flip": False, "alternating_rows": True}
    yield base
    yield dict(base, lengths=[140001], data_seed=7, biased=True)
    if tier == "thorough":
        yield dict(base, lengths=[270000], data_seed=6)


def execute_many_runs(case, t):
    execute(case, t)
    t.cls("more_than_65535_runs_of_one_label")


SUBCHECKS = [
    SubCheck(name="bic_vs_definition", strategy=lambda: gen.e2e_config(betas=(0.0, 0.5, 2.0, 10.0, 50.0),
                                                                       eps_values=(0, 0, 0, 1e-12, 1e-9, 1e-7, 1e-5, 3e-5, 1e-3, 0.01, 0.05), scales=True, scale_prob=0.3), execute=execute,
             budget={"quick": 128, "thorough": 3000}, shards={"quick": 16, "thorough": 8}, modes=E2E_MODES,
             min_nontrivial_fraction=0.3),
    SubCheck(name="bic_very_many_label_runs", enumerate=_many_runs, execute=execute_many_runs, exhaustive=False,
             budget={"quick": 1, "thorough": 1}, shards={"quick": 1, "thorough": 2}, modes=["jit"], ambient=()),
    SubCheck(name="bic_wide_scales_large_NW", strategy=_wide, execute=execute, pinned=_pinned_wide,
             budget={"quick": 32, "thorough": 800}, shards={"quick": 16, "thorough": 16}, modes={"quick": ["nojit"], "thorough": ["nojit"]},
             min_nontrivial_fraction=0.0),
]
