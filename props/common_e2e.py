"""Shared pieces for the properties decided on traced end-to-end runs."""
import numpy as np

from harness import e2e
from harness.core import Violation
from harness.oracle import gaussian_ref


def traced_run(case, t, **kw):
    """Run the configuration; a run that raises is outside 'all completed runs' -> DISCARD (counted by type)."""
    tr = e2e.run(case, **kw)
    if not tr.ok:
        t.discard(f"run raised {type(tr.exc).__name__}: {str(tr.exc)[:70]}")
    if tr.end is None or tr.begin is None:
        raise Violation("run returned a result without passing through the main loop's begin/end hooks")
    return tr


def classify(tr, t):
    end = tr.end
    t.cls(f"front_{tr.cfg['front']}")
    t.cls(f"reason_{end['reason']}")
    t.cls("rounds>=2" if end["rounds"] >= 2 else "rounds=1")
    if end["rounds"] >= 3:
        t.cls("rounds>=3")
    if had_repopulation(tr):
        t.cls("with_repopulation")
    if any(len(c["members"]) == 0 for c in end["model"]["clusters"]):
        t.cls("final_empty_cluster")
    if n_switches(end["model"]["labels"]) > 0:
        t.cls("final_labelling_switches")
    if len(tr.series) > 1:
        t.cls("multi_series")
    if tr.cfg.get("biased"):
        t.cls("biased")
    if tr.cfg.get("beta_form") == "vector":
        t.cls("beta_vector")
    if tr.cfg.get("lam_form") != "scalar":
        t.cls(f"lam_{tr.cfg.get('lam_form')}")


def had_repopulation(tr):
    return any(("repopulate" in q["phases"]) and not q["phases"]["repopulate"]["same_object"]
               and q["phases"]["repopulate"]["before"]["labels"] != q["phases"]["repopulate"]["after"]["labels"]
               for q in tr.rounds)


def n_switches(labels):
    return sum(1 for a, b in zip(labels, labels[1:]) if a != b)


def stacked_lengths(tr):
    W = tr.cfg["W"]
    return [len(s) - W + 1 for s in tr.series]


def boundary_indices(tr):
    """indices i such that (i, i+1) straddles two series in the stacked order"""
    out, c = [], 0
    for L in stacked_lengths(tr)[:-1]:
        c += L
        out.append(c - 1)
    return out


def reference_densities(model_snap, stacked):
    """T x K reference log-densities under a snapshot of the model; None if some MRF is not PD (caller decides)."""
    means = [c["stacked_data_mean"] for c in model_snap["clusters"]]
    thetas = [c["train_inverse"] for c in model_snap["clusters"]]
    for th in thetas:
        if th is None or not gaussian_ref.is_pd(np.atleast_2d(th)):
            return None, None, None
    table, kappas, logdets = gaussian_ref.log_density_table(stacked, [np.atleast_1d(m) for m in means],
                                                            [np.atleast_2d(x) for x in thetas])
    return table, kappas, logdets


def flat_labels(result, front):
    if front == "single":
        return [int(v) for v in result.point_labels]
    out = []
    for lst in result.point_labels:
        out.extend(int(v) for v in lst)
    return out


def brief_result(tr):
    r = tr.result
    return {"rounds": tr.end["rounds"], "reason": tr.end["reason"],
            "label_runs": n_switches(tr.end["model"]["labels"]) + 1,
            "cluster_sizes": [len(c["members"]) for c in tr.end["model"]["clusters"]],
            "cost": float(r.label_assignment_cost) if r is not None else None}
