"""C17 - the Calinski-Harabasz index matches its definition (and is invariant under per-sensor translation)."""
import math

import numpy as np
from hypothesis import strategies as st

from harness import gen
from harness.core import SubCheck, Violation, E2E_MODES
from harness.oracle import metrics_ref
from props import common_e2e as ce

PROPERTY = "C17"
LEVEL = "exploration"
RULE = ("(1) Traced runs from the shared end-to-end generator that converged (run_end hook reason) with K>=2 and every "
        "cluster non-empty: the reported index must equal [B/(K-1)]/[Wd/(T-K)] computed independently from the stacked data "
        "and the final labels with the per-column centroid (rtol 1e-9). (2) Function level: Hypothesis draws stacked data "
        "(T<=60, NW<=8), a labelling with every cluster non-empty and a per-column shift vector; a ModelState is built from "
        "the public containers with the cluster means of the data; the function's value must equal the definition and must "
        "not change when the shift is added to the data (and to the means). A value that instead equals the same formula "
        "centred on the scalar mean of all entries matches the signature of known finding KF2; any third value is a "
        "violation. Non-trivial = the per-column and scalar-centre formulas differ by more than 1e-6 relative (so the check "
        "can tell them apart); distinct by SHA-1 of the case."
        ' Function-level data also Fortran-ordered / transposed view / row-strided, and a second call on the same array object after an in-place translation.'
        ' Function level also with K = 10..25.')
ASSUMPTIONS = ["exit reason (converged) is read from the guarded run_end hook", "runs where some cluster is empty or that stopped at the limit are outside the property's quantifier (discarded)"]


def _judge(got, data, labels, K, t, what, rel=1e-9):
    col = metrics_ref.calinski_harabasz(data, labels, K, "column")
    sca = metrics_ref.calinski_harabasz(data, labels, K, "scalar")
    try:
        g = float(got)
    except Exception:
        raise Violation(f"{what}: index is not a number: {got!r}")
    tol = lambda ref: 1e-9 * (abs(ref) + 1e-300) + 1e-12 * abs(ref)
    distinguishable = abs(col - sca) > 1e-6 * max(abs(col), abs(sca), 1e-300)
    if math.isfinite(g) and abs(g - col) <= rel * abs(col):
        return "ok", distinguishable, col
    if not math.isfinite(col) and not math.isfinite(g):
        return "ok", False, col         # zero within-cluster dispersion: ratio undefined in the definition itself
    if math.isfinite(g) and abs(g - sca) <= rel * abs(sca):
        return "KF2", distinguishable, col
    raise Violation(f"{what}: index {g!r} equals neither the definition ({col!r}) nor the scalar-centre variant ({sca!r})")


def execute_e2e(case, t):
    tr = ce.traced_run(case, t, sync_pool=True, record_admm=False)
    end = tr.end
    K = case["K"]
    if end["reason"] != "converged":
        t.discard("run stopped at the iteration limit (not converged)")
    if any(len(c["members"]) == 0 for c in end["model"]["clusters"]):
        t.discard("a cluster is empty in the final state")
    data = tr.begin["stacked"]
    labels = end["model"]["labels"]
    verdict, distinguishable, col = _judge(tr.result.calinski_harabasz_index, data, labels, K, t, "end to end")
    ce.classify(tr, t)
    if distinguishable:
        t.mark_nontrivial({"CH": float(tr.result.calinski_harabasz_index), "definition": col, "K": K, "T": len(labels), "verdict": verdict})
    else:
        t.cls("centres_coincide")
    if verdict == "KF2":
        t.known_finding("KF2", "Calinski-Harabasz index centred on the scalar mean of all entries instead of the per-column centroid")


@st.composite
def function_case(draw):
    nw = draw(st.integers(1, 8))
    K = draw(st.one_of(st.integers(2, 4), st.integers(2, 4), st.integers(2, 4), st.sampled_from([10, 11, 12, 16, 25])))
    T = draw(st.one_of(st.integers(2 * K + 1, 60), st.integers(2 * K + 1, 60), st.integers(2 * K + 1, 60),
                       st.sampled_from([4097, 4700, 8200, 9001])))
    return {"nw": nw if T < 1000 else min(nw, 3), "K": K, "T": T, "seed": draw(st.integers(0, 2 ** 32 - 1)), "min_size": draw(st.sampled_from([1, 1, 2])), "noise_scale": draw(st.sampled_from([1.0, 1.0, 1.0, 1e-3, 1e-5])), "data_dtype": draw(st.sampled_from(["float64", "float64", "float64", "int64", "int32"])),
            "col_offsets": draw(st.sampled_from(["none", "small", "large"])),
            "shift_scale": draw(st.sampled_from([0.5, 10.0, 1000.0])),
            "layout": draw(st.sampled_from(["C", "C", "F", "transposed_view", "row_strided"])),
            "second_call_on_same_array": draw(st.sampled_from([False, False, True]))}


def _build(case, shift=None):
    from fast_ticc.containers import arguments, model_state
    rng = np.random.default_rng(case["seed"])
    nw, K, T = case["nw"], case["K"], case["T"]
    ms_ = case.get("min_size", 2)
    if ms_ == 1:
        # some clusters hold exactly one window (their within-cluster dispersion is 0 but they still count in B, K and T)
        big = int(rng.integers(0, K))
        labels = list(range(K)) + [big] * (T - K)
        if K >= 3 and rng.integers(0, 2):
            other = (big + 1) % K
            labels = list(range(K)) + [big if i % 2 else other for i in range(T - K)]
    else:
        labels = list(range(K)) * 2 + [int(v) for v in rng.integers(0, K, size=T - 2 * K)]
    rng.shuffle(labels)
    centres = rng.normal(0, 3, size=(K, nw))
    data = centres[labels] + rng.normal(size=(T, nw)) * case.get("noise_scale", 1.0)
    if case["col_offsets"] != "none":
        data = data + rng.normal(0, 5 if case["col_offsets"] == "small" else 500, size=nw)
    sh = rng.normal(0, case["shift_scale"], size=nw)
    if case.get("data_dtype", "float64") != "float64":
        sh = np.round(sh)
    if shift:
        data = data + sh
    if case.get("data_dtype", "float64") != "float64":
        data = np.round(data * 4.0).astype(case["data_dtype"])        # an integer-typed stacked array
    lay = case.get("layout", "C")
    if lay == "F":
        data = np.asfortranarray(data)
    elif lay == "transposed_view":
        data = np.ascontiguousarray(data.T).T               # what X.T of an (NW, T) array is
    elif lay == "row_strided":
        big = np.zeros((2 * len(data), data.shape[1]), dtype=data.dtype)
        big[::2] = data
        data = big[::2]
    args = arguments.UserArguments(sparsity_weight=0.1, iteration_limit=1, label_switching_cost=1.0, min_cluster_size=2,
                                   min_meaningful_covariance=0, num_clusters=K, num_processors=1, window_size=1,
                                   biased_covariance=False)
    ms = model_state.ModelState.empty_model(args, data)
    ms.point_labels = [int(v) for v in labels]
    lab = np.asarray(labels)
    for k in range(K):
        ms.clusters[k].stacked_data_mean = data[lab == k].mean(axis=0)
    return data, [int(v) for v in labels], ms


def execute_function(case, t):
    from fast_ticc import cluster_metrics
    K = case["K"]
    data, labels, ms = _build(case)
    data2, _, ms2 = _build(case, shift=True)
    try:
        v1 = cluster_metrics.calinski_harabasz_index(data, ms)
        if case.get("second_call_on_same_array"):
            # the caller translates its own array in place and asks again: same object, same shape, other numbers
            data[...] = data2
            for k in range(K):
                ms.clusters[k].stacked_data_mean = ms2.clusters[k].stacked_data_mean
            data2, ms2 = data, ms
            t.cls("second_call_on_the_same_array_object")
        v2 = cluster_metrics.calinski_harabasz_index(data2, ms2)
    except Exception as e:
        raise Violation(f"calinski_harabasz_index raised {type(e).__name__}: {e}")
    if case.get("second_call_on_same_array"):
        data, _, _ = _build(case)            # the first call's numbers, for the reference value of v1
    # squared distances of size sigma^2 computed from coordinates of size M carry a relative rounding error ~ 2 eps M / sigma
    sigma = case.get("noise_scale", 1.0)
    rel1 = 1e-9 + 16 * 2.2e-16 * float(np.max(np.abs(data))) / sigma
    rel2 = 1e-9 + 16 * 2.2e-16 * float(np.max(np.abs(data2))) / sigma
    verdict1, dist1, col1 = _judge(v1, data, labels, K, t, "function level", rel1)
    verdict2, dist2, col2 = _judge(v2, data2, labels, K, t, "function level, translated data", rel2)
    if sigma < 1:
        t.cls("tiny_within_cluster_dispersion")
    t.cls(f"col_offsets_{case['col_offsets']}")
    if case.get("layout", "C") != "C":
        t.cls(f"layout_{case['layout']}")
    if case.get("data_dtype", "float64") != "float64":
        t.cls("integer_typed_data")
    if case["T"] > 4096:
        t.cls("more_than_4096_windows")
    if min(labels.count(k) for k in range(K)) == 1:
        t.cls("singleton_cluster")
    if dist1 or dist2:
        t.mark_nontrivial({"CH": float(v1), "CH_translated": float(v2), "definition": col1, "verdicts": [verdict1, verdict2]})
    else:
        t.cls("centres_coincide")
    if "KF2" in (verdict1, verdict2):
        t.known_finding("KF2", "Calinski-Harabasz index centred on the scalar mean of all entries instead of the per-column centroid")
        return
    # both equal the definition; the definition is translation invariant, so the two values must agree
    if abs(float(v1) - float(v2)) > (1e-6 + rel1 + rel2) * abs(float(v1)) * (1 + case["shift_scale"]):
        raise Violation(f"index changed from {float(v1)!r} to {float(v2)!r} when a constant was added to each sensor")


def _pinned_fn():
    return [{"nw": 3, "K": 2, "T": 12, "seed": 1, "col_offsets": "large", "shift_scale": 10.0}]


def _pinned_e2e():
    # converged runs whose final labelling has a one-member cluster: the last round began with a repopulation, so the
    # fitted means differ from the final members' centroids (defect repaired in b83760a; kept as regression cases)
    return [{'front': 'single', 'N': 1, 'W': 2, 'K': 3, 'lengths': [30], 'regimes': 3, 'mean_spread': 6.0, 'data_seed': 218, 'np_seed': 0, 'py_seed': 0, 'beta': 0.0, 'beta_form': 'scalar', 'lam': 0.0, 'lam_form': 'scalar', 'limit': 5, 'm': 2, 'biased': True, 'eps': 0, 'num_processors': 1, 'boundary_regime_flip': False}, {'front': 'single', 'N': 2, 'W': 2, 'K': 4, 'lengths': [56], 'regimes': 4, 'mean_spread': 0.0, 'data_seed': 50, 'np_seed': 1, 'py_seed': 1, 'beta': 2.0, 'beta_form': 'scalar', 'lam': 0.0, 'lam_form': 'scalar', 'limit': 5, 'm': 2, 'biased': False, 'eps': 0, 'num_processors': 1, 'boundary_regime_flip': False}]


SUBCHECKS = [
    SubCheck(name="ch_function_vs_definition_and_translation", strategy=function_case, execute=execute_function, pinned=_pinned_fn,
             budget={"quick": 600, "thorough": 20000}, shards={"quick": 2, "thorough": 8}, modes=["jit"]),
    SubCheck(name="ch_end_to_end_converged_runs", strategy=lambda: gen.e2e_config(betas=(0.0, 0.5, 2.0, 10.0, 50.0), limits=(5, 30)),
             execute=execute_e2e, pinned=_pinned_e2e, budget={"quick": 160, "thorough": 3000}, shards={"quick": 16, "thorough": 8}, modes=E2E_MODES),
]
