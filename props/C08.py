"""C08 - cluster repopulation conserves points and never starves a donor."""
import itertools
import random
import zlib

import numpy as np
from hypothesis import strategies as st
from hypothesis.stateful import RuleBasedStateMachine, rule, precondition, initialize

from harness.core import SubCheck, Violation
from harness.oracle import repop_model as rm

PROPERTY = "C08"
LEVEL = "exploration"
RULE = ("(1) Complete enumeration of cluster-size vectors: K<=3 (quick) / K<=4 (thorough) with m in {1,2,3}, every size in "
        "0..3m+2 per cluster and every order of (distinct) spreads, plus K=5, m=1 with every size vector and sampled spread "
        "orders in the thorough tier; labellings are the size vector laid out and shuffled by a case-derived permutation. "
        "(2) Hypothesis: K<=8, sizes up to 200, m up to 12, tied spreads, drawn Python-RNG seed. (3) Hypothesis stateful "
        "machine alternating 'relabel a random subset' (what a Viterbi pass does) and 'repopulate', checked after every step. "
        "Oracle: independent capacity model (needy = size<2; capacity floor(s/m)-1 if s>=2m; RuntimeError naming the donor "
        "shortage iff sum capacity < #needy; otherwise conservation, +m per needy cluster, donors >=2m before / >=m after / "
        "multiples of m, moves only donor->needy, bystanders untouched, greedy donor usage by decreasing spread with ties in "
        "any order, input state byte-identical afterwards on both paths, same RNG state -> same output). "
        "Non-trivial = at least one cluster with fewer than 2 points (a repopulation is actually attempted); distinct by "
        "SHA-1 of the case."
        ' min_cluster_size also as a NumPy integer scalar (int8..uint64, multiples far inside the type); enumerations also in a python -O process.')
ASSUMPTIONS = ["cluster spread is the Frobenius norm of the fitted covariance, given here as 1x1 matrices with prescribed values",
               "K>=1, m>=1, every label in [0,K) (what the main loop hands to the step)"]


MATRIX_CATALOGUE = [
    [[3.0, 0.0], [0.0, 4.0]],          # Frobenius 5     spectral 4
    [[4.5, 0.0], [0.0, 0.0]],          # Frobenius 4.5   spectral 4.5
    [[2.5, 2.5], [2.5, 2.5]],          # Frobenius 5     spectral 5
    [[3.0, 1.0], [1.0, 3.0]],          # Frobenius sqrt(20)=4.47  spectral 4
    [[0.0, 3.5], [3.5, 0.0]],          # Frobenius 4.95  spectral 3.5  trace 0
    [[1.5, 0.0], [0.0, 1.5]],          # Frobenius 2.12
    [[6.0, 0.0], [0.0, 0.5]],          # Frobenius 6.02
]


def _labels_from_sizes(sizes, seed):
    labels = [k for k, s in enumerate(sizes) for _ in range(s)]
    random.Random(seed).shuffle(labels)
    return labels


def enumerate_cases(tier):
    kmax = 3 if tier == "quick" else 4
    for K in range(1, kmax + 1):
        for m in (1, 2, 3):
            for sizes in itertools.product(range(0, 3 * m + 3), repeat=K):
                for perm in itertools.permutations(range(1, K + 1)):
                    yield {"K": K, "m": m, "sizes": list(sizes), "spreads": list(perm)}
    if tier == "quick":
        # a slice of K=4: m=1 completely
        for sizes in itertools.product(range(0, 6), repeat=4):
            for perm in itertools.permutations(range(1, 5)):
                yield {"K": 4, "m": 1, "sizes": list(sizes), "spreads": list(perm)}
    else:
        rnd = random.Random(20240)
        for sizes in itertools.product(range(0, 6), repeat=5):
            perms = [tuple(range(1, 6)), tuple(range(5, 0, -1))] + [tuple(rnd.sample(range(1, 6), 5)) for _ in range(6)]
            for perm in perms:
                yield {"K": 5, "m": 1, "sizes": list(sizes), "spreads": list(perm)}


def _classify(obs, t):
    if obs["needy"] == 0:
        t.cls("no_needy")
        return
    t.cls("needy>=2" if obs["needy"] >= 2 else "needy=1")
    if obs["error"]:
        t.cls("error_path")
    if obs.get("donor_twice"):
        t.cls("donor_serves_twice")
    if obs.get("ties"):
        t.cls("tied_spreads")
    if any(s == 1 for s in obs["sizes"]):
        t.cls("size1_needy")
    t.mark_nontrivial({"sizes": obs["sizes"], "error": obs["error"], "usage": obs.get("usage")})


def execute_sizes(case, t):
    K, m, sizes, spreads = case["K"], case["m"], case["sizes"], case["spreads"]
    seed = case.get("seed", zlib.crc32(repr((K, m, sizes, spreads)).encode()))
    labels = case.get("labels")
    if labels is None:
        labels = _labels_from_sizes(sizes, seed)
    rm.M_FORM[0] = case.get("m_form")
    try:
        obs = rm.check_repopulation(labels, K, m, spreads, seed, t)
    finally:
        rm.M_FORM[0] = None
    if case.get("m_form"):
        t.cls(f"min_cluster_size_as_{case['m_form']}")
    _classify(obs, t)


@st.composite
def random_case(draw):
    K = draw(st.integers(1, 8))
    m = draw(st.integers(1, 12))
    regime = draw(st.sampled_from(["near", "near", "big", "mixed"]))
    sizes = []
    for _ in range(K):
        kind = draw(st.sampled_from(["empty", "one", "small", "donor", "donor", "big"]))
        if kind == "empty":
            s = 0
        elif kind == "one":
            s = 1
        elif kind == "small":
            s = draw(st.integers(2, max(2, 2 * m - 1)))
        elif kind == "donor":
            s = draw(st.integers(2 * m, 4 * m + 1))
        else:
            s = draw(st.integers(2, 200)) if regime != "near" else draw(st.integers(2 * m, 6 * m))
        sizes.append(s)
    style = draw(st.sampled_from(["tied", "distinct", "distinct", "matrices", "matrices", "near_ties", "extreme_scales"]))
    if style == "tied":
        spreads = [draw(st.sampled_from([1.0, 2.0, 2.0, 3.5])) for _ in range(K)]
    elif style == "distinct":
        spreads = draw(st.permutations([float(i + 1) * 0.75 for i in range(K)]))
    elif style == "matrices":
        # 2x2 fitted covariances whose Frobenius order differs from their spectral / trace / max-entry order
        spreads = [draw(st.sampled_from(MATRIX_CATALOGUE)) for _ in range(K)]
    elif style == "near_ties":
        spreads = [draw(st.sampled_from([1.0, 1.0 + 2.0 ** -30, 1.0 + 2.0 ** -29, 1.0 - 2.0 ** -31, 2.0])) for _ in range(K)]
    else:
        spreads = [draw(st.sampled_from([1e40, 2e40, 3e39, 1e-50, 3e-50, 2e-51, 1.0])) for _ in range(K)]
    if draw(st.integers(0, 5)) == 0:
        m = draw(st.sampled_from([20, 30, 40, 60]))         # thresholds derived from m show only for large m
        sizes = [draw(st.sampled_from([0, 1, 2, 3, 4, 5, m, 2 * m, 2 * m + 3, 3 * m, 150])) for _ in range(K)]
    seed = draw(st.integers(0, 2 ** 32 - 1))
    # the kind of integer the caller's min_cluster_size is; only where every multiple the algorithm may form (up to 3m, and the
    # largest cluster size) is far inside the type's range - arithmetic that overflows a caller-chosen narrow type is NumPy's
    # semantics, not this property's business
    m_form = draw(st.sampled_from([None, None, None, "int64", "int32", "uint8", "uint16", "uint64", "int8"]))
    if m_form and 8 * max([m] + sizes) >= np.iinfo(m_form).max:
        m_form = None
    return {"K": K, "m": m, "sizes": sizes, "spreads": list(spreads), "seed": seed, "m_form": m_form}


# ----------------------------------------------------------------------------- stateful: relabel / repopulate histories

def machine_factory(tally, fail):
    class RepopulationHistory(RuleBasedStateMachine):
        def __init__(self):
            super().__init__()
            self.trace = []
            self.labels = None
            self.K = self.m = None
            self.spreads = None
            self.had_repop_after_relabel = False
            self.relabelled = False
            self.model = None

        @initialize(K=st.integers(2, 6), m=st.integers(1, 4), T=st.one_of(st.integers(0, 30), st.integers(30, 200)), seed=st.integers(0, 2 ** 31))
        def start(self, K, m, T, seed):
            r = random.Random(seed)
            self.K, self.m = K, m
            self.labels = [r.randrange(K) for _ in range(T)]
            self.spreads = [float(r.randrange(1, 5)) for _ in range(K)]
            self.trace.append({"op": "start", "K": K, "m": m, "labels": list(self.labels), "spreads": list(self.spreads)})
            tally.begin({"trace": self.trace})

        @rule(frac=st.floats(0.0, 1.0), target_cluster=st.integers(0, 5), seed=st.integers(0, 2 ** 31),
              wipe=st.booleans())
        def relabel(self, frac, target_cluster, seed, wipe):
            r = random.Random(seed)
            k = target_cluster % self.K
            if wipe:    # a Viterbi pass frequently abandons a cluster entirely
                other = (k + 1) % self.K
                self.labels = [other if v == k else v for v in self.labels]
            else:
                self.labels = [k if r.random() < frac * 0.5 else v for v in self.labels]
            self.trace.append({"op": "relabel", "labels": list(self.labels)})
            self.relabelled = True

        @rule(seed=st.integers(0, 2 ** 31), respread=st.booleans())
        def repopulate(self, seed, respread):
            if respread:
                r = random.Random(seed)
                self.spreads = [float(r.randrange(1, 5)) for _ in range(self.K)]
            self.trace.append({"op": "repopulate", "seed": seed, "spreads": list(self.spreads)})
            self._do_repopulate(seed)

        def _lineage_model(self):
            """The state a real run would hand to the step: derived from the previous state by the phases' own idioms
            (fresh clusters + label assignment for a relabelling; shallow cluster copies with new fitted covariances for an
            optimisation), not rebuilt from scratch."""
            if self.model is None or len(self.model.point_labels) != len(self.labels):
                self.model = rm.build_model(self.labels, self.K, self.m, self.spreads)
                return self.model
            cur = self.model
            if [int(v) for v in cur.point_labels] != list(self.labels):
                nxt = cur.shallow_copy()
                nxt.clusters = [c.deep_copy() for c in nxt.clusters]
                nxt.point_labels = list(self.labels)
                cur = nxt
            spreads_now = [rm.frobenius(c.computed_covariance) for c in cur.clusters]
            if spreads_now != [rm.frobenius(s) for s in self.spreads]:
                nxt = cur.shallow_copy()
                new_clusters = []
                for k, c in enumerate(nxt.clusters):
                    c2 = c.shallow_copy()
                    c2.computed_covariance = rm.spread_matrix(self.spreads[k])
                    new_clusters.append(c2)
                nxt.clusters = new_clusters
                cur = nxt
            self.model = cur
            return cur

        def _do_repopulate(self, seed):
            try:
                obs = rm.check_repopulation(self.labels, self.K, self.m, self.spreads, seed, tally, model=self._lineage_model())
            except Violation as v:
                fail.case, fail.violation = {"trace": self.trace}, v
                tally.frozen = True
                raise
            tally.cls("step_repopulate")
            if obs["needy"]:
                tally.cls("step_repopulate_with_needy")
                if self.relabelled:
                    self.had_repop_after_relabel = True
            if obs["error"]:
                tally.cls("step_error_path")
            elif obs["needy"]:
                self.labels = obs["new_labels"]
                self.model = obs["out"]

        def teardown(self):
            if self.had_repop_after_relabel:
                tally._cur_case = {"trace": self.trace}
                tally._cur_digest = None
                tally.mark_nontrivial({"steps": len(self.trace)})

    return RepopulationHistory


def execute_trace(case, t):
    """Replay of a recorded history (used by --replay)."""
    from harness.core import Tally

    class _F:
        case = violation = None
    mach = machine_factory(t, _F())()
    try:
        for step in case["trace"]:
            if step["op"] == "start":
                mach.K, mach.m, mach.labels, mach.spreads = step["K"], step["m"], list(step["labels"]), list(step["spreads"])
            elif step["op"] == "relabel":
                mach.labels = list(step["labels"])
                mach.relabelled = True
            elif step["op"] == "repopulate":
                mach.spreads = list(step["spreads"])
                mach._do_repopulate(step["seed"])
    finally:
        t.frozen = False
    t.mark_nontrivial()


def fuzz_decode(fdp):
    K = fdp.ConsumeIntInRange(1, 6)
    m = fdp.ConsumeIntInRange(1, 4)
    sizes = [fdp.ConsumeIntInRange(0, 4 * m + 3) for _ in range(K)]
    spreads = [float(fdp.ConsumeIntInRange(1, 4)) for _ in range(K)]
    seed = fdp.ConsumeIntInRange(0, 2 ** 16)
    return {"K": K, "m": m, "sizes": sizes, "spreads": spreads, "seed": seed}


def fuzz_seeds():
    return [bytes([3, 1, 0, 4, 2, 1, 2, 3, 0, 7]), bytes([4, 2, 0, 0, 9, 4, 1, 1, 2, 2, 0, 1]), bytes([2, 3, 1, 11, 3, 3, 0, 5]),
            bytes([5, 1, 0, 1, 2, 3, 6, 4, 3, 2, 1, 1, 0, 9]), bytes([6, 2, 0, 0, 0, 8, 8, 8, 1, 1, 1, 2, 2, 2, 0, 3])]


SUBCHECKS = [
    SubCheck(name="enumerate_size_vectors", enumerate=enumerate_cases, execute=execute_sizes, exhaustive=True,
             budget={"quick": 1, "thorough": 1}, shards={"quick": 8, "thorough": 16}, modes=["jit", "pyopt"],
             min_nontrivial_fraction=0.3),
    SubCheck(name="random_sizes_ties_seeds", strategy=random_case, execute=execute_sizes,
             budget={"quick": 3000, "thorough": 80000}, shards={"quick": 3, "thorough": 16}, modes=["jit", "pyopt"],
             min_nontrivial_fraction=0.3),
    SubCheck(name="donor_logic_coverage_guided_fuzz", execute=execute_sizes, fuzz_decode=fuzz_decode, fuzz_seeds=fuzz_seeds,
             budget={"quick": 6000, "thorough": 300000}, shards={"quick": 2, "thorough": 8}, modes=["nojit"],
             env={"NUMBA_DISABLE_JIT": "1"}),
    SubCheck(name="relabel_repopulate_histories", strategy=machine_factory, execute=execute_trace, stateful=True,
             budget={"quick": 300, "thorough": 6000}, shards={"quick": 3, "thorough": 16}, modes=["jit"]),
]
