"""C06 - result fields are mutually consistent (cost and likelihood accounting)."""
import math

import numpy as np

from harness import gen
from harness.core import SubCheck, Violation, E2E_MODES
from harness.oracle import gaussian_ref
from props import common_e2e as ce

PROPERTY = "C06"
LEVEL = "exploration"
RULE = ("Completed runs of both front ends from the shared end-to-end generator (N<=3, W<=4, K in 2..4, 30..120 rows, "
        "1..K regimes, beta in {0,.5,2,10,50,400} scalar or per-pair vector, iteration limits {1,2,3,5,30}, scalar/matrix "
        "lambda, biased/unbiased), biased towards K larger than the number of regimes so that runs end with empty clusters. "
        "Oracle on result fields: cost = -overall_log_likelihood + sum of beta over consecutive labelled pairs inside one "
        "series with different labels (rel 1e-9 of sum|terms|); len(all_log_likelihood) = number of labels >= 0; overall "
        "sum/mean/median are those of that list (as a multiset); per-cluster mean/median equal those of the reference "
        "log-densities of the windows labelled k under the final model (run_end hook), 0 for a cluster that owns no window; "
        "the list itself equals those reference densities as a multiset. Joint runs whose cost equals the all-pairs formula "
        "(boundary pairs priced) match the signature of known finding KF1. A second family runs single series with 4097..9000 "
        "stacked rows, short regimes and a regime change placed exactly at rows 4096 and 8192. Non-trivial = >=1 label switch "
        "and (an empty final cluster or >=2 series or more than 4096 stacked rows); distinct by SHA-1 of the case."
        ' Pinned wide-window runs with sensors at 1e6 (log-determinants beyond -745).')
ASSUMPTIONS = ["cluster association of per-point values comes from reference densities under the final model (hook), not from the list layout",
               "tolerance: relative 1e-9 of the sum of absolute terms (plus the condition-number-aware bound of C05 for densities)"]


def _strategy():
    return gen.e2e_config(front=("single", "joint"), betas=(0.0, 0.5, 2.0, 10.0, 50.0, 400.0), offsets=(0.0, 0.0, 0.0, 1e5, -1e7, 1e8),
                          scales=True, scale_prob=0.15)


def _pair_betas(tr, total):
    b = tr.beta
    if isinstance(b, np.ndarray):
        return [float(x) for x in b[: total - 1]]
    return [float(b)] * max(0, total - 1)


def execute(case, t):
    tr = ce.traced_run(case, t, sync_pool=True, record_admm=False)
    res = tr.result
    K = case["K"]
    labels = ce.flat_labels(res, case["front"])
    inner = [v for v in labels if v >= 0]
    master = tr.end["model"]["labels"]
    if inner != master:
        raise Violation("labelled part of the result differs from the final master labelling (cannot account the cost)")
    T = len(inner)
    all_ll = [float(v) for v in res.all_log_likelihood]
    if len(all_ll) != T:
        raise Violation(f"all_log_likelihood has {len(all_ll)} entries for {T} labelled points "
                        f"(cluster sizes {[len(c['members']) for c in tr.end['model']['clusters']]})")
    # --- reference densities under the final model: which value belongs to which point
    table, kappas, _ = ce.reference_densities(tr.end["model"], tr.begin["stacked"])
    if table is None:
        t.discard("final model has a non-PD MRF (C03's business)")
    ref = np.array([table[i, master[i]] for i in range(T)])
    nw = tr.begin["stacked"].shape[1]
    tol = np.array([gaussian_ref.tolerance(ref[i], nw, kappas[master[i]]) for i in range(T)])
    got_sorted = np.sort(np.array(all_ll))
    order = np.argsort(ref)
    if np.any(np.abs(got_sorted - ref[order]) > tol[order]):
        j = int(np.argmax(np.abs(got_sorted - ref[order]) - tol[order]))
        raise Violation(f"all_log_likelihood is not the multiset of the labelled windows' log-densities under the final model "
                        f"(sorted position {j}: {got_sorted[j]!r} vs {ref[order][j]!r})")
    ssum = float(np.sum(np.abs(all_ll)))

    def close(a, b, scale, what):
        if not (math.isfinite(a)):
            raise Violation(f"{what} is not finite: {a!r}")
        if abs(a - b) > 1e-9 * (scale + 1.0) + 1e-12:
            raise Violation(f"{what} = {a!r} but recomputation from the result's own fields gives {b!r}")
    close(float(res.overall_log_likelihood), math.fsum(all_ll), ssum, "overall_log_likelihood")
    close(float(res.overall_log_likelihood_mean), math.fsum(all_ll) / T, ssum / T, "overall_log_likelihood_mean")
    close(float(res.overall_log_likelihood_median), float(np.median(all_ll)), float(np.max(np.abs(all_ll))), "overall_log_likelihood_median")
    cm, cmed = res.cluster_log_likelihood_mean, res.cluster_log_likelihood_median
    if len(cm) != K or len(cmed) != K:
        raise Violation(f"per-cluster likelihood fields have lengths {len(cm)}/{len(cmed)} for K={K}")
    for k in range(K):
        idx = [i for i in range(T) if master[i] == k]
        if not idx:
            if float(cm[k]) != 0.0 or float(cmed[k]) != 0.0:
                raise Violation(f"cluster {k} owns no point but reports mean {cm[k]!r} / median {cmed[k]!r} (expected 0)")
            continue
        vals = ref[idx]
        slack = float(np.max(tol[idx]))
        if abs(float(cm[k]) - float(np.mean(vals))) > slack + 1e-9 * (1 + abs(float(np.mean(vals)))):
            raise Violation(f"cluster {k}: reported mean {cm[k]!r} but the {len(idx)} points labelled {k} average {float(np.mean(vals))!r}")
        if abs(float(cmed[k]) - float(np.median(vals))) > slack + 1e-9 * (1 + abs(float(np.median(vals)))):
            raise Violation(f"cluster {k}: reported median {cmed[k]!r} but the points labelled {k} have median {float(np.median(vals))!r}")
    # --- cost accounting
    betas = _pair_betas(tr, T)
    bset = set(ce.boundary_indices(tr))
    within = math.fsum(betas[i] for i in range(T - 1) if master[i] != master[i + 1] and i not in bset)
    allpairs = math.fsum(betas[i] for i in range(T - 1) if master[i] != master[i + 1])
    cost = float(res.label_assignment_cost)
    if not math.isfinite(cost):
        raise Violation(f"label_assignment_cost is not finite: {cost!r}")
    overall = float(res.overall_log_likelihood)
    scale = ssum + sum(betas)
    tolc = 1e-9 * (scale + 1.0)
    ce.classify(tr, t)
    if T > 4096:
        t.cls("more_than_4096_stacked_rows")
        if master[4095] != master[4096]:
            t.cls("label_change_at_row_4096")
    sw = ce.n_switches(master)
    boundary_switch = any(master[i] != master[i + 1] for i in bset)
    if boundary_switch:
        t.cls("switch_at_series_boundary")
    empty = any(len(c["members"]) == 0 for c in tr.end["model"]["clusters"])
    if sw >= 1 and (empty or len(tr.series) >= 2 or T > 4096):
        t.mark_nontrivial(ce.brief_result(tr))
    if abs(cost - (-overall + within)) <= tolc:
        pass
    elif boundary_switch and abs(cost - (-overall + allpairs)) <= tolc:
        t.known_finding("KF1", "joint front end prices label switches across series boundaries")
        return
    else:
        raise Violation(f"label_assignment_cost {cost!r} != -overall_log_likelihood + within-series switching cost = "
                        f"{-overall + within!r} (all-pairs reading: {-overall + allpairs!r}; {sw} switches)")


def _pinned():
    # wide windows with sensors at 1e6: log-determinants near -900 and below (exp() of them underflows)
    from props.C03 import _pinned_wide
    # a joint run that (on the pinned tree) switches label exactly at a series boundary: exhibits KF1 deterministically
    return _pinned_wide()[:2] + [{"front": "joint", "N": 1, "W": 1, "K": 2, "lengths": [20, 20], "regimes": 2, "mean_spread": 6.0, "data_seed": 5,
             "np_seed": 1, "py_seed": 1, "beta": 2.0, "beta_form": "scalar", "lam": 0.11, "lam_form": "scalar", "limit": 5,
             "m": 2, "biased": False, "eps": 0, "num_processors": 1, "boundary_regime_flip": True}]


SUBCHECKS = [
    SubCheck(name="result_accounting_long_series", strategy=gen.e2e_long_config, execute=execute,
             budget={"quick": 15, "thorough": 400}, shards={"quick": 3, "thorough": 16}, modes=E2E_MODES),
    SubCheck(name="result_accounting", strategy=_strategy, execute=execute, pinned=_pinned,
             budget={"quick": 240, "thorough": 6000}, shards={"quick": 16, "thorough": 8}, modes=E2E_MODES,
             min_nontrivial_fraction=0.15),
]
