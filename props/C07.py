"""C07 - jointly labelled series are independent across series boundaries."""
import itertools
import math

import numpy as np
from hypothesis import strategies as st

from harness import gen, e2e
from harness.core import SubCheck, Violation, E2E_MODES
from harness.oracle.viterbi_ref import ExactProblem
from props import common_e2e as ce
from props.C01 import check_labelling

PROPERTY = "C07"
LEVEL = "exploration"
RULE = ("(1) Mask helper: complete enumeration of all tuples of 1..5 (quick) / 1..6 (thorough) stacked lengths in 1..8, plus "
        "Hypothesis tuples of up to 12 lengths up to 300: the mask must be ones with zeros exactly at cum_i - 1 for every series "
        "but the last (beta[i] prices the pair (i,i+1)). (2) Joint runs: Hypothesis draws 2..6 series of unequal length, W, K, "
        "scalar beta >= 0, data whose adjacent series end/start in different regimes; oracle: stacked data at run_begin equals "
        "the concatenation of the individual stackings built here; in every round the switching cost that reaches the labelling "
        "step equals beta x mask; the returned labelling is a minimum of, and the reported cost equals, the within-series "
        "objective for the emitted cost table (exact DP oracle of C01). A run in which the labelling step receives exactly the "
        "caller's unmasked scalar, and whose labelling/cost are optimal for the all-pairs objective, matches the signature of "
        "known finding KF1; a misplaced mask or a cost matching neither objective is a violation. (3) ticc_joint_labels([X]) "
        "must equal ticc_labels(X) field by field, bitwise, from equal RNG states. Non-trivial = >= 2 series and >= 1 boundary "
        "pair whose final labels differ (or, for (3), a completed pair of runs with W>=2; for (1) >= 2 series); distinct by SHA-1."
        ' The mask times a switching cost (0.1, 1/3, 7.3, 1e300, 5e-324, 1e-300) must price every within-series pair at exactly that cost; joint runs also with a narrower first series (float32 / int64).')
ASSUMPTIONS = ["the switching cost and cost table handed to the labelling step are observed through the guarded relabel_inputs hook"]


def expected_mask(lengths):
    total = sum(lengths)
    m = [1.0] * total
    c = 0
    for L in lengths[:-1]:
        c += L
        m[c - 1] = 0.0
    return m


def check_mask(lengths, t):
    from fast_ticc import data_preparation as dp
    arg = list(lengths)
    try:
        got = dp.label_switching_cost_template(arg)
    except Exception as e:
        raise Violation(f"label_switching_cost_template({lengths}) raised {type(e).__name__}: {e}")
    if arg != list(lengths):
        raise Violation("label_switching_cost_template modified its argument")
    exp = expected_mask(lengths)
    got_l = [float(v) for v in np.asarray(got).ravel()]
    if len(got_l) != len(exp):
        raise Violation(f"mask for lengths {lengths} has {len(got_l)} entries, expected {len(exp)}")
    if got_l != exp:
        zeros_got = [i for i, v in enumerate(got_l) if v == 0.0]
        zeros_exp = [i for i, v in enumerate(exp) if v == 0.0]
        raise Violation(f"mask for stacked lengths {lengths} has zeros at {zeros_got}, boundary pairs are priced by entries {zeros_exp}")
    # the mask is a template: callers (and the joint front end) multiply it by the switching cost; every within-series pair must
    # then carry exactly that cost and every boundary pair exactly 0 - for costs of any legal magnitude
    for beta in (0.1, 1.0 / 3.0, 7.3, 1e300, 5e-324, 1e-300):
        prod = np.asarray(beta * got)
        want = [beta * v for v in exp]
        if prod.shape[0] != len(want) or any(float(a) != b for a, b in zip(prod.ravel(), want)):
            i = next(i for i, (a, b) in enumerate(zip(prod.ravel(), want)) if float(a) != b)
            raise Violation(f"switching cost {beta!r} times the mask prices pair {i} at {float(prod.ravel()[i])!r}, expected {want[i]!r} "
                            f"(mask element type {np.asarray(got).dtype})")


def enumerate_masks(tier):
    kmax = 5 if tier == "quick" else 6
    for k in range(1, kmax + 1):
        for lens in itertools.product(range(1, 9), repeat=k):
            yield {"lens": list(lens)}


def execute_mask(case, t):
    check_mask(case["lens"], t)
    if len(case["lens"]) >= 2:
        t.mark_nontrivial()
    if 1 in case["lens"][:-1]:
        t.cls("length_1_series")


def execute_e2e(case, t):
    tr = ce.traced_run(case, t, sync_pool=True, record_admm=False)
    W, K = case["W"], case["K"]
    lens = ce.stacked_lengths(tr)
    # (a) no stacked window mixes rows of two series
    from props.C10 import expected_stack
    exp = np.vstack([expected_stack(np.ascontiguousarray(s, dtype=np.float64), W) for s in tr.series])
    got = np.ascontiguousarray(tr.begin["stacked"])
    if got.dtype != np.float64:
        # (whatever the element type of the stacked array, its values must be those of the series)
        got = got.astype(np.float64)
    got = got.view(np.uint64)
    if got.shape != exp.shape or not np.array_equal(got, exp):
        raise Violation(f"stacked data handed to the main loop is not the concatenation of the per-series stackings (lengths {[len(s) for s in tr.series]}, W={W})")
    T = sum(lens)
    beta = float(case["beta"])
    mask = expected_mask(lens)
    masked = np.array(mask) * beta
    bset = ce.boundary_indices(tr)
    master = tr.end["model"]["labels"]
    boundary_switch = any(master[i] != master[i + 1] for i in bset)
    ce.classify(tr, t)
    if boundary_switch:
        t.cls("switch_at_series_boundary")
    if len(tr.series) >= 2 and boundary_switch:
        t.mark_nontrivial(dict(ce.brief_result(tr), boundaries=bset))
    # (b) what reaches the labelling step, every round
    unmasked_rounds = 0
    for r, q in enumerate(tr.rounds):
        b = q["relabel_inputs"]["beta"]
        if isinstance(b, np.ndarray) and b.ndim == 1:
            if len(b) != T:
                raise Violation(f"round {r}: switching-cost vector at the labelling step has {len(b)} entries for {T} stacked rows")
            # entry T-1 prices no pair
            if not np.array_equal(np.asarray(b, dtype=float)[:T - 1], masked[:T - 1]):
                z = [i for i in range(T - 1) if float(b[i]) != masked[i]]
                raise Violation(f"round {r}: switching cost at the labelling step differs from beta x mask at entries {z[:6]} "
                                f"(boundary pairs are {bset})")
        else:
            if len(tr.series) >= 2 and beta != 0.0:
                if float(b) == beta:
                    unmasked_rounds += 1
                else:
                    raise Violation(f"round {r}: labelling step received switching cost {b!r}, neither beta x mask nor the caller's beta={beta}")
    # (c) optimality / cost for the within-series objective on the emitted table of the last round
    last = tr.rounds[-1]
    cost_table = np.asarray(last["relabel_inputs"]["cost"])
    out = last["phases"]["relabel"]["after"]
    if unmasked_rounds:
        if unmasked_rounds != len(tr.rounds):
            raise Violation("the labelling step received a masked switching cost in some rounds and the unmasked one in others")
        # signature of KF1: consistent with the all-pairs objective, nothing else wrong
        check_labelling(cost_table, beta, out["labels"], out["cost"], "F", t, who="last round (all-pairs objective, KF1 signature)")
        t.known_finding("KF1", "joint front end hands the caller's unmasked switching cost to the labelling step")
        return
    check_labelling(cost_table, masked, out["labels"], out["cost"], "F", t, who="last round (within-series objective)")
    if float(tr.result.label_assignment_cost) != float(out["cost"]):
        raise Violation("reported cost is not the cost of the last labelling step")


def _joint_strategy():
    return gen.e2e_config(front=("joint",), betas=(0.0, 0.5, 2.0, 5.0, 20.0), limits=(1, 2, 3, 5), lam_forms=("scalar", "scalar", "const_matrix"),
                          max_series=6, allow_short=True)


@st.composite
def single_equiv_case(draw):
    cfg = draw(gen.e2e_config(front=("single",), betas=(0.0, 0.5, 2.0, 10.0, 100.0), beta_forms=("scalar",), limits=(1, 2, 3, 5)))
    return cfg


def execute_single_equiv(case, t):
    import dataclasses
    a = e2e.run(dict(case, front="single"), sync_pool=True, record_admm=False)
    b = e2e.run(dict(case, front="joint"), sync_pool=True, record_admm=False)
    if a.ok != b.ok:
        raise Violation(f"single front end {'completed' if a.ok else 'raised ' + type(a.exc).__name__} but the joint front end on the same "
                        f"single series {'completed' if b.ok else 'raised ' + type(b.exc).__name__ + ': ' + str(b.exc)[:80]}")
    if not a.ok:
        if type(a.exc) is not type(b.exc):
            raise Violation(f"front ends raise different errors on the same series: {type(a.exc).__name__} vs {type(b.exc).__name__}")
        t.discard(f"both runs raised {type(a.exc).__name__}")
    ra, rb = a.result, b.result
    for f in dataclasses.fields(ra):
        va, vb = getattr(ra, f.name), getattr(rb, f.name)
        if f.name == "point_labels":
            if not (isinstance(vb, list) and len(vb) == 1 and [int(x) for x in vb[0]] == [int(x) for x in va]):
                raise Violation("joint labelling of a single series differs from the single-series front end's labels")
            continue
        xa, xb = np.asarray(va, dtype=float), np.asarray(vb, dtype=float)
        if xa.shape != xb.shape or not np.array_equal(xa, xb, equal_nan=True):
            raise Violation(f"field {f.name} differs between ticc_labels(X) and ticc_joint_labels([X])")
    t.cls(f"reason_{a.end['reason']}")
    if case["W"] >= 2:
        t.mark_nontrivial(ce.brief_result(a))


@st.composite
def random_mask_case(draw):
    return {"lens": draw(st.lists(st.integers(1, 300), min_size=1, max_size=12))}


def _pinned_joint():
    return [{"front": "joint", "N": 1, "W": 1, "K": 2, "lengths": [20, 20], "regimes": 2, "mean_spread": 6.0, "data_seed": 5,
             "np_seed": 1, "py_seed": 1, "beta": 2.0, "beta_form": "scalar", "lam": 0.11, "lam_form": "scalar", "limit": 5,
             "m": 2, "biased": False, "eps": 0, "num_processors": 1, "boundary_regime_flip": True}]


SUBCHECKS = [
    SubCheck(name="mask_helper_enumerated", enumerate=enumerate_masks, execute=execute_mask, exhaustive=True,
             budget={"quick": 1, "thorough": 1}, shards={"quick": 4, "thorough": 16}, modes=["jit", "pyopt"]),
    SubCheck(name="mask_helper_random", strategy=random_mask_case, execute=execute_mask,
             budget={"quick": 500, "thorough": 20000}, shards={"quick": 1, "thorough": 4}, modes=["jit"]),
    SubCheck(name="joint_runs_boundaries", strategy=_joint_strategy, execute=execute_e2e, pinned=_pinned_joint,
             budget={"quick": 128, "thorough": 3000}, shards={"quick": 16, "thorough": 8}, modes=E2E_MODES),
    SubCheck(name="joint_of_one_series_equals_single", strategy=single_equiv_case, execute=execute_single_equiv,
             budget={"quick": 64, "thorough": 1500}, shards={"quick": 16, "thorough": 8}, modes=E2E_MODES),
]
