"""C19 - caller-owned data is never modified (successful and failing calls; read-only inputs work)."""
import numpy as np
from hypothesis import strategies as st

from harness import gen, e2e
from harness.core import SubCheck, Violation, E2E_MODES
from props import common_e2e as ce
from props.C18 import _digest

PROPERTY = "C19"
LEVEL = "exploration"
RULE = ("Every public entry point is called with caller-owned arrays in drawn layouts (C, Fortran, strided view of a larger "
        "buffer) and writability (writable, read-only): (1) both front ends with data series, matrix-valued lambda and "
        "vector-valued beta, in calls that succeed and calls made to fail (other front end's input kind, a fault injected into "
        "the k-th optimiser call, min_cluster_size so large that no donor exists, a non-numeric lambda); (2) the optimiser entry "
        "point with covariance and lambda matrices; (3) the labelling kernel (JIT and interpreted) with cost table and beta "
        "vector; (4) the labelling phase with data and a caller-built model carrying a beta vector, a covariance floor (0 or > 0) "
        "and precision matrices/means that are snapshotted like any other argument. Oracle: for every argument bytes "
        "(including the whole underlying buffer of a view), dtype, shape, strides and flags are identical before and after, "
        "lists keep length and element identity, and the read-only call returns bitwise the same result as the writable one. "
        "Non-trivial = at least one array argument is read-only, non-C-contiguous, or the call failed; distinct by SHA-1 of the case."
        ' Failing calls include array arguments of undescribed shapes ((T,1)/(1,T)/over-long cost arrays, flattened/3-D weight arrays): contents, shape and strides must survive.'
        ' Tables with NaN/inf entries; model matrices of dimension 2..6, read-only, Fortran-ordered.')
ASSUMPTIONS = ["fault injection substitutes the public optimiser entry point under a synchronous stand-in pool (so the fault fires in-process)"]


class ArgSnap:
    def __init__(self, name, a):
        self.name, self.a = name, a
        self.base = a
        while isinstance(self.base, np.ndarray) and self.base.base is not None and isinstance(self.base.base, np.ndarray):
            self.base = self.base.base
        self.base_bytes = np.ascontiguousarray(self.base).tobytes() if isinstance(self.base, np.ndarray) else None
        self.bytes = a.tobytes()
        self.meta = (a.dtype, a.shape, a.strides, a.flags.writeable, a.flags.c_contiguous, a.flags.f_contiguous)

    def check(self, when):
        a = self.a
        meta = (a.dtype, a.shape, a.strides, a.flags.writeable, a.flags.c_contiguous, a.flags.f_contiguous)
        if meta != self.meta:
            raise Violation(f"argument '{self.name}' changed dtype/shape/strides/flags ({when}): {self.meta} -> {meta}")
        if a.tobytes() != self.bytes:
            raise Violation(f"argument '{self.name}' was modified ({when})")
        if self.base_bytes is not None and np.ascontiguousarray(self.base).tobytes() != self.base_bytes:
            raise Violation(f"the buffer underlying argument '{self.name}' was modified outside the view ({when})")


def layout(a, kind, readonly):
    a = np.array(a, copy=True)
    if kind == "F" and a.ndim == 2:
        a = np.asfortranarray(a)
    elif kind == "strided":
        if a.ndim == 2:
            big = np.full((a.shape[0] * 2 + 1, a.shape[1] * 2 + 1), 7.5, dtype=a.dtype)
            big[1::2, 1::2] = a
            a = big[1::2, 1::2]
        else:
            big = np.full(a.shape[0] * 3 + 2, 7.5, dtype=a.dtype)
            big[1::3][: a.shape[0]] = a
            a = big[1::3][: len(a)]
    if readonly:
        a.setflags(write=False)
    return a


LAYOUTS = st.sampled_from(["C", "C", "F", "strided"])


# ----------------------------------------------------------------------------- (1) front ends

@st.composite
def front_case(draw):
    cfg = draw(gen.e2e_config(front=("single", "joint"), max_N=2, max_W=3, max_K=3, t_range=(30, 70), limits=(1, 2, 3),
                              lam_forms=("scalar", "const_matrix", "random_matrix", "asymmetric_matrix"), beta_forms=("scalar", "vector")))
    cfg["outcome"] = draw(st.sampled_from(["ok", "ok", "ok", "wrong_front_end", "optimiser_fault", "no_donor", "bad_lambda", "misshapen_argument"]))
    cfg["misshape"] = draw(st.sampled_from(["beta_column", "beta_row", "beta_column", "lambda_3d", "lambda_flat", "beta_too_long"]))
    cfg["data_layout"] = draw(LAYOUTS)
    cfg["data_readonly"] = draw(st.booleans())
    cfg["param_layout"] = draw(LAYOUTS)
    cfg["param_readonly"] = draw(st.booleans())
    cfg["fault_at"] = draw(st.integers(0, 5))
    cfg["data_dtype"] = draw(st.sampled_from(["float64", "float64", "float32", "int64"]))
    cfg["param_byteorder"] = draw(st.sampled_from(["native", "native", "native", "swapped"]))
    cfg["reuse_buffers"] = False
    cfg["prior_calls_on_same_arrays"] = False
    cfg["prior_run_override"] = None        # the injected fault is counted from the start of the call under test
    if cfg["front"] == "joint":
        # the joint front end documents a per-point array for the switching cost as well
        cfg["beta_form"] = draw(st.sampled_from(["scalar", "vector", "vector"]))
        if cfg["beta_form"] == "vector":
            cfg["beta_vector_seed"] = draw(st.integers(0, 2 ** 16))
            cfg["beta"] = max(cfg["beta"], 1.0)
    if cfg["outcome"] == "no_donor":
        cfg["m"] = 10 ** 6
        cfg["K"] = max(3, cfg["K"])
        cfg["regimes"] = 1
        cfg["limit"] = 30
        cfg["beta"] = 400.0
    return cfg


class InjectedFault(Exception):
    pass


def _front_call(cfg, readonly, layout_kind, p_readonly, p_layout):
    import fast_ticc
    series = e2e.build_series(dict(cfg))
    if cfg.get("data_dtype") == "float32":
        series = [s.astype(np.float32) for s in series]
    elif cfg.get("data_dtype") == "int64":
        series = [np.round(s * 100).astype(np.int64) for s in series]
    series = [layout(s, layout_kind, readonly) for s in series]
    nw = cfg["N"] * cfg["W"]
    total = sum(len(s) - cfg["W"] + 1 for s in series)
    lam = e2e.make_lambda(cfg, nw)
    beta = e2e.make_beta(cfg, total)
    snaps = [ArgSnap(f"data series {i}", s) for i, s in enumerate(series)]
    swapped = cfg.get("param_byteorder") == "swapped"
    if isinstance(lam, np.ndarray):
        if swapped:
            lam = lam.astype(lam.dtype.newbyteorder())        # same values, the other byte order (data read from a foreign file)
        lam = layout(lam, p_layout, p_readonly)
        snaps.append(ArgSnap("sparsity_weight matrix", lam))
    if isinstance(beta, np.ndarray):
        if swapped:
            beta = beta.astype(beta.dtype.newbyteorder())
        beta = layout(beta, p_layout if p_layout != "F" else "C", p_readonly)
        snaps.append(ArgSnap("label_switching_cost vector", beta))
    outcome = cfg["outcome"]
    extra = {"sparsity_weight": lam, "label_switching_cost": beta}
    if outcome == "bad_lambda":
        extra["sparsity_weight"] = "0.11"
    if outcome == "misshapen_argument":
        # an array argument of a shape the interface does not describe (a (T,1) column or (1,T) row for the per-pair cost, a
        # flattened or 3-D weight "matrix"): whatever the library makes of it - an error, or a tolerant reading - the caller's
        # array keeps its contents, shape and strides
        kind = cfg.get("misshape", "beta_column")
        rng = np.random.default_rng(cfg["data_seed"])
        if kind.startswith("beta"):
            n = total + (5 if kind == "beta_too_long" else 0)
            vec = np.round(rng.uniform(0.5, 3.0, size=n), 3)
            arr = vec.reshape(-1, 1) if kind == "beta_column" else (vec.reshape(1, -1) if kind == "beta_row" else vec)
            arr = np.array(arr, dtype=np.float64, order="C")
            if p_readonly:
                arr.setflags(write=False)
            extra["label_switching_cost"] = arr
            snaps.append(ArgSnap(f"label_switching_cost given as {kind} array of shape {arr.shape}", arr))
        else:
            mat = np.full((nw, nw), 0.11) + np.round(rng.uniform(0, 0.05, size=(nw, nw)), 3)
            mat = (mat + mat.T) / 2
            arr = mat.reshape(nw, nw, 1).copy() if kind == "lambda_3d" else mat.reshape(-1).copy()
            if p_readonly:
                arr.setflags(write=False)
            extra["sparsity_weight"] = arr
            snaps.append(ArgSnap(f"sparsity_weight given as {kind} array of shape {arr.shape}", arr))
    wrapper = None
    if outcome == "optimiser_fault":
        counter = {"n": 0}

        def wrapper(real, *a, **k):
            counter["n"] += 1
            if counter["n"] - 1 == cfg["fault_at"]:
                raise InjectedFault("injected optimiser fault")
            return real(*a, **k)
    run_cfg = dict(cfg)
    series_arg = list(series)
    if outcome == "wrong_front_end":
        if cfg["front"] == "single":
            # the joint front end given one 2-D array instead of a sequence of arrays
            tr = e2e.run(dict(run_cfg, front="joint"), sync_pool=True, record_admm=False, series=series[0], extra_kwargs=extra)
        else:
            # the single-series front end given a list of arrays
            tr = e2e.run(dict(run_cfg, front="single"), sync_pool=True, record_admm=False, series=[series_arg], extra_kwargs=extra)
    else:
        tr = e2e.run(run_cfg, sync_pool=True, record_admm=False, admm_wrapper=wrapper, series=series_arg, extra_kwargs=extra)
    return tr, snaps, series, series_arg


def execute_front(cfg, t):
    tr, snaps, series, series_arg = _front_call(cfg, cfg["data_readonly"], cfg["data_layout"], cfg["param_readonly"], cfg["param_layout"])
    when = "call returned" if tr.ok else f"call raised {type(tr.exc).__name__}"
    for s in snaps:
        s.check(when)
    if len(series_arg) != len(series) or any(a is not b for a, b in zip(series_arg, series)):
        raise Violation(f"the list of data series was modified ({when})")
    outcome = cfg["outcome"]
    t.cls(f"outcome_{outcome}")
    t.cls(f"data_{cfg.get('data_dtype', 'float64')}")
    t.cls("returned" if tr.ok else f"raised_{type(tr.exc).__name__}")
    if outcome == "ok" and tr.ok and (cfg["data_readonly"] or cfg["param_readonly"]):
        # the same call with writable C-ordered inputs must give the same result bit for bit
        tr2, _, _, _ = _front_call(cfg, False, cfg["data_layout"], False, cfg["param_layout"])
        if not tr2.ok:
            raise Violation(f"the call succeeds with read-only inputs but raises {type(tr2.exc).__name__} with writable ones")
        if _digest_any(tr.result) != _digest_any(tr2.result):
            raise Violation("read-only inputs give a different result than writable inputs")
        t.cls("readonly_result_equals_writable")
    if outcome == "ok" and not tr.ok and isinstance(tr.exc, (ValueError, TypeError)) and "read-only" in str(tr.exc).lower():
        raise Violation(f"passing read-only arrays does not work: {tr.exc}")
    if cfg["data_readonly"] or cfg["param_readonly"] or cfg["data_layout"] != "C" or not tr.ok:
        t.mark_nontrivial({"outcome": outcome, "raised": None if tr.ok else type(tr.exc).__name__, "data_layout": cfg["data_layout"],
                           "data_readonly": cfg["data_readonly"]})


def _digest_any(res):
    d = _digest(res) if not isinstance(res.point_labels[0], list) else None
    if d is not None:
        return d
    import dataclasses
    out = {}
    for f in dataclasses.fields(res):
        v = getattr(res, f.name)
        if f.name == "markov_random_fields":
            out[f.name] = [np.ascontiguousarray(m, dtype=np.float64).tobytes() for m in v]
        elif f.name == "point_labels":
            out[f.name] = [[int(x) for x in lst] for lst in v]
        else:
            out[f.name] = np.asarray(v, dtype=np.float64).tobytes()
    return out


# ----------------------------------------------------------------------------- (2) optimiser entry point

@st.composite
def opt_case(draw):
    N = draw(st.integers(1, 3))
    W = draw(st.integers(1, 3))
    return {"N": N, "W": W, "seed": draw(st.integers(0, 2 ** 32 - 1)), "s_layout": draw(LAYOUTS), "s_readonly": draw(st.booleans()),
            "lam_matrix": draw(st.booleans()), "l_layout": draw(LAYOUTS), "l_readonly": draw(st.booleans()),
            "fail": draw(st.sampled_from([None, None, "bad_lambda", "callback_raises"])), "callback": draw(st.booleans()),
            "rho": draw(st.sampled_from([1.0, 1.0, 0.3, 4.0])),
            "s_kind": draw(st.sampled_from(["cov", "cov", "qdq"]))}


def execute_opt(case, t):
    from fast_ticc import admm
    N, W = case["N"], case["W"]
    n = N * W
    rng = np.random.default_rng(case["seed"])
    A = rng.normal(size=(3 * n + 2, n))
    S0 = np.atleast_2d(np.cov(A.T))
    if case.get("s_kind") == "qdq":
        # a covariance assembled as Q diag(d) Q^T: symmetric only up to rounding, which is what callers really have
        Q, _ = np.linalg.qr(rng.normal(size=(n, n)))
        S0 = (Q * rng.uniform(0.5, 2.0, size=n)) @ Q.T
    lam0 = np.full((n, n), 0.2) + np.eye(n) * 0.1 if case["lam_matrix"] else 0.2

    def call(s_ro, l_ro):
        S = layout(S0, case["s_layout"], s_ro)
        snaps = [ArgSnap("covariance", S)]
        lam = lam0
        if isinstance(lam0, np.ndarray):
            lam = layout(lam0, case["l_layout"], l_ro)
            snaps.append(ArgSnap("sparsity_weight matrix", lam))
        kw = {"rho": case.get("rho", 1.0)}
        if case.get("callback") and case["fail"] != "callback_raises":
            from props.C02 import balancing_callback
            kw["rho_update"] = balancing_callback
        if case["fail"] == "bad_lambda":
            lam = None
        if case["fail"] == "callback_raises":
            def cb(*a):
                raise InjectedFault("callback failed")
            kw["rho_update"] = cb
        try:
            res = admm.admm_optimize_theta(S, lam, W, N, **kw)
            return res.theta, None, snaps
        except Exception as e:
            return None, e, snaps
    theta, exc, snaps = call(case["s_readonly"], case["l_readonly"])
    when = "call returned" if exc is None else f"call raised {type(exc).__name__}"
    for s in snaps:
        s.check(when)
    if case["fail"] is None:
        if exc is not None:
            raise Violation(f"optimiser raised {type(exc).__name__}: {exc} for layout {case['s_layout']}, read-only={case['s_readonly']}")
        theta2, exc2, _ = call(False, False)
        if exc2 is not None or not np.array_equal(theta.view(np.uint64), theta2.view(np.uint64)):
            raise Violation("read-only inputs give a different optimiser result than writable inputs")
    t.cls("returned" if exc is None else f"raised_{type(exc).__name__}")
    if case["s_readonly"] or case["l_readonly"] or case["s_layout"] != "C" or exc is not None:
        t.mark_nontrivial({"layout": case["s_layout"], "readonly": case["s_readonly"], "raised": None if exc is None else type(exc).__name__})


# ----------------------------------------------------------------------------- (3) labelling kernel, (4) labelling phase

@st.composite
def kernel_case(draw):
    return {"T": draw(st.integers(1, 30)), "K": draw(st.integers(1, 5)), "seed": draw(st.integers(0, 2 ** 32 - 1)),
            "c_layout": draw(st.sampled_from(["C", "F", "strided"])), "c_readonly": draw(st.booleans()),
            "beta_vector": draw(st.booleans()), "b_layout": draw(st.sampled_from(["C", "strided"])), "b_readonly": draw(st.booleans()),
            "via": draw(st.sampled_from(["kernel", "phase"])), "floor": draw(st.sampled_from([0, 0, 0.3, 2.0])),
            "m_layout": draw(st.sampled_from(["C", "F"])), "m_readonly": draw(st.booleans()),
            # a caller-owned table with NaN / +inf / -inf entries (a masked-out cluster, an overflowed likelihood): no optimum is
            # claimed for it here, only that the table is still the caller's afterwards
            "nonfinite": draw(st.sampled_from([None, None, None, "nan", "+inf", "-inf", "mixed"]))}


def execute_kernel(case, t):
    from fast_ticc import cluster_label_assignment as cla
    rng = np.random.default_rng(case["seed"])
    T, K = case["T"], case["K"]
    cost0 = rng.integers(-400, 400, size=(T, K)) / 8.0
    beta0 = rng.integers(0, 60, size=T) / 8.0 if case["beta_vector"] else 2.5
    if case.get("nonfinite") and case["via"] == "kernel":
        pool = {"nan": [np.nan], "+inf": [np.inf], "-inf": [-np.inf], "mixed": [np.nan, np.inf, -np.inf]}[case["nonfinite"]]
        for _ in range(1 + T * K // 6):
            cost0[int(rng.integers(0, T)), int(rng.integers(0, K))] = pool[int(rng.integers(0, len(pool)))]

    def call(c_ro, b_ro):
        snaps = []
        beta = beta0
        if isinstance(beta0, np.ndarray):
            beta = layout(beta0, case["b_layout"], b_ro)
            snaps.append(ArgSnap("label_switching_cost vector", beta))
        if case["via"] == "kernel":
            cost = layout(cost0, case["c_layout"], c_ro)
            snaps.append(ArgSnap("cost table", cost))
            try:
                labels, c = cla.assign_point_cluster_labels(cost, beta)
                return ([int(x) for x in labels], float(c)), None, snaps
            except Exception as e:
                return None, e, snaps
        # labelling phase: data array + model whose arguments carry beta
        from fast_ticc.containers import arguments, model_state
        n = 2 + case["seed"] % 5
        data = layout(rng.normal(size=(T, n)) if False else np.random.default_rng(case["seed"] + 1).normal(size=(T, n)), case["c_layout"], c_ro)
        snaps.append(ArgSnap("data", data))
        args = arguments.UserArguments(sparsity_weight=0.1, iteration_limit=1, label_switching_cost=beta, min_cluster_size=2,
                                       min_meaningful_covariance=case.get("floor", 0), num_clusters=K, num_processors=1,
                                       window_size=1, biased_covariance=False)
        ms = model_state.ModelState.empty_model(args, data)
        ms.point_labels = [i % K for i in range(T)]
        r2 = np.random.default_rng(case["seed"] + 2)
        for k in range(K):
            B = r2.normal(size=(n, n)) * 0.4
            # the caller's model: matrices with entries on both sides of any floor, in the caller's layout
            ms.clusters[k].train_inverse = layout(B @ B.T + np.eye(n), case.get("m_layout", "C"), bool(case.get("m_readonly")) and c_ro)
            ms.clusters[k].stacked_data_mean = r2.normal(size=n)
            snaps.append(ArgSnap(f"model cluster {k} MRF", ms.clusters[k].train_inverse))
            snaps.append(ArgSnap(f"model cluster {k} mean", ms.clusters[k].stacked_data_mean))
        try:
            out = cla.predict_cluster_labels(ms, data)
            return ([int(x) for x in out.point_labels], float(out.label_assignment_cost)), None, snaps
        except Exception as e:
            return None, e, snaps
    got, exc, snaps = call(case["c_readonly"], case["b_readonly"])
    for s in snaps:
        s.check("call returned" if exc is None else f"call raised {type(exc).__name__}")
    if exc is not None:
        raise Violation(f"labelling {case['via']} raised {type(exc).__name__}: {str(exc)[:200]} (layout {case['c_layout']}, "
                        f"read-only table={case['c_readonly']}, read-only beta={case['b_readonly']})")
    ref, exc2, _ = call(False, False)
    same = exc2 is None and ref[0] == got[0] and (ref[1] == got[1] or (ref[1] != ref[1] and got[1] != got[1]))
    if not same:
        raise Violation("read-only inputs give a different labelling than writable inputs")
    if case.get("nonfinite") and case["via"] == "kernel":
        t.cls(f"table_with_{case['nonfinite']}_entries")
    t.cls(f"via_{case['via']}")
    if case["c_readonly"] or case["b_readonly"] or case["c_layout"] != "C":
        t.mark_nontrivial({"via": case["via"], "layout": case["c_layout"], "readonly": [case["c_readonly"], case["b_readonly"]]})


SUBCHECKS = [
    SubCheck(name="front_ends_success_and_failure", strategy=front_case, execute=execute_front,
             budget={"quick": 128, "thorough": 3000}, shards={"quick": 16, "thorough": 8}, modes=E2E_MODES, min_nontrivial_fraction=0.3),
    SubCheck(name="optimiser_entry_point", strategy=opt_case, execute=execute_opt,
             budget={"quick": 200, "thorough": 6000}, shards={"quick": 4, "thorough": 8}, modes=["jit"]),
    SubCheck(name="labelling_kernel_and_phase", strategy=kernel_case, execute=execute_kernel,
             budget={"quick": 300, "thorough": 8000}, shards={"quick": 2, "thorough": 8}, modes=["jit", "nojit"]),
]
