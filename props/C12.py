"""C12 - each cluster is fitted to exactly its own windows, with the requested estimator."""
import numpy as np

from harness import gen
from harness.core import SubCheck, Violation, E2E_MODES
from props import common_e2e as ce
from harness import e2e

PROPERTY = "C12"
LEVEL = "exploration"
RULE = ("Traced runs of both front ends from the shared end-to-end generator with biased_covariance drawn and K often larger "
        "than the number of regimes (repopulation events), executed with a synchronous stand-in pool and a recording wrapper "
        "around the public optimiser entry point. Oracle at every statistics phase of every round: cluster k's members are "
        "exactly the indices labelled k in the state entering the phase; its mean is the column mean of those stacked "
        "windows; its covariance is centred^T centred / (n - (0 if biased else 1)) computed here (entry (i,j) within "
        "1e-10*sqrt(S_ii S_jj) + 1e-300; 0-d array accepted for NW=1); the k-th optimiser call of the round received that "
        "covariance bit for bit, the caller's sparsity weight (same object or equal value), W and N. Non-trivial = the "
        "round follows a repopulation or biased=True, in a run with >= 2 rounds; distinct by SHA-1 of the case."
        " Separately: every MRF stored by an optimise phase equals a fresh solve of that cluster's own covariance, with the synchronous pool and with the library's pool of 2-4 worker processes (K>=3)."
        ' Requested floors 1e-3..0.3 and the biased flag as bool / np.bool_ / int are part of the run configurations.')
ASSUMPTIONS = ["per-round states via the guarded phase hook; optimiser arguments via substitution of the public entry point under a synchronous pool"]


def execute(case, t):
    tr = ce.traced_run(case, t, sync_pool=True, record_admm=True)
    data = tr.begin["stacked"]
    K, W, N = case["K"], case["W"], case["N"]
    biased = bool(case.get("biased"))
    nontrivial = False
    for r, q in enumerate(tr.rounds):
        ph = q["phases"]["statistics"]
        labels = ph["before"]["labels"]
        if ph["after"]["labels"] != labels:
            raise Violation(f"round {r}: the statistics phase changed the labelling")
        calls = q["admm"]
        if len(calls) != K:
            raise Violation(f"round {r}: optimiser called {len(calls)} times for K={K} clusters")
        for k in range(K):
            idx = [i for i, v in enumerate(labels) if v == k]
            c = ph["after"]["clusters"][k]
            if c["members"] != idx:
                raise Violation(f"round {r}: cluster {k} is fitted to {len(c['members'])} member points, but {len(idx)} points carry label {k}")
            pts = data[idx]
            n = len(idx)
            mean = pts.mean(axis=0)
            got_mean = np.atleast_1d(c["stacked_data_mean"])
            if got_mean.shape != mean.shape or np.any(np.abs(got_mean - mean) > 1e-10 * (np.abs(mean) + pts.std(axis=0) + 1e-300)):
                raise Violation(f"round {r}: mean of cluster {k} is not the mean of the {n} windows labelled {k}")
            denom = n - (0 if biased else 1)
            if denom <= 0:
                continue          # a one-member cluster under the unbiased estimator: the run raises (C03); not reached
            cen = pts - mean
            S = cen.T @ cen / denom
            got = np.atleast_2d(c["empirical_covariance"])
            if got.shape != S.shape:
                raise Violation(f"round {r}: covariance of cluster {k} has shape {got.shape}, expected {S.shape}")
            d = np.sqrt(np.abs(np.diag(S)))
            tol = 1e-10 * np.outer(d, d) + 1e-300
            if np.any(np.abs(got - S) > tol):
                i, j = np.unravel_index(int(np.argmax(np.abs(got - S) - tol)), S.shape)
                other = cen.T @ cen / (n - (1 if biased else 0)) if n > 1 else None
                hint = ""
                if other is not None and np.all(np.abs(got - other) <= 1e-10 * np.outer(np.sqrt(np.abs(np.diag(other))), np.sqrt(np.abs(np.diag(other)))) + 1e-300):
                    hint = " (it matches the OTHER estimator: biased flag ignored or inverted)"
                raise Violation(f"round {r}: covariance of cluster {k} entry ({i},{j}) is {got[i, j]!r}, the sample covariance of its "
                                f"{n} windows with biased={biased} is {S[i, j]!r}{hint}")
            call = calls[k]
            if not (call["S"].shape == np.asarray(c["empirical_covariance"]).shape and
                    np.array_equal(call["S"], c["empirical_covariance"], equal_nan=True)):
                raise Violation(f"round {r}: optimiser call {k} did not receive cluster {k}'s covariance bit for bit")
            lam = call["lam"]
            if isinstance(tr.lam, np.ndarray):
                # compare with a copy taken before the run: the live object could have been edited in place
                if not (isinstance(lam, np.ndarray) and lam.shape == tr.lam_before.shape and np.array_equal(lam, tr.lam_before)):
                    raise Violation(f"round {r}: optimiser call {k} did not receive the caller's sparsity-weight matrix unchanged "
                                    f"(max |diff| {float(np.max(np.abs(np.asarray(lam, dtype=float) - tr.lam_before))) if isinstance(lam, np.ndarray) and lam.shape == tr.lam_before.shape else 'shape'})")
            else:
                if isinstance(lam, np.ndarray) or float(lam) != float(tr.lam):
                    raise Violation(f"round {r}: optimiser call {k} received sparsity weight {lam!r}, the caller passed {tr.lam!r}")
            if call["W"] != W or call["N"] != N:
                raise Violation(f"round {r}: optimiser call {k} received window size {call['W']!r} / sensor count {call['N']!r}, expected {W} / {N}")
        after_repop = r > 0 and q["phases"]["repopulate"]["after"]["labels"] != q["phases"]["repopulate"]["before"]["labels"]
        if after_repop:
            t.cls("round_after_repopulation")
        if (after_repop or biased) and len(tr.rounds) >= 2:
            nontrivial = True
    ce.classify(tr, t)
    if any(len(c["members"]) > 4096 for q in tr.rounds for c in q["phases"]["statistics"]["after"]["clusters"]):
        t.cls("cluster_with_more_than_4096_windows")
        nontrivial = True
    if nontrivial:
        t.mark_nontrivial(ce.brief_result(tr))


def _fit_is_own(stored, theta_compressed, eps):
    from fast_ticc import matrix_compression
    th = matrix_compression.reinflate_matrix(np.array(theta_compressed, copy=True))
    if eps:
        th = np.where(np.abs(th) >= eps, th, 0.0)
    st_ = np.asarray(stored)
    return st_.shape == th.shape and np.array_equal(st_, th)


def execute_fit_belongs_to_cluster(case, t):
    """The Markov random field stored for cluster k after the optimise phase is the optimiser's answer to cluster k's own
    covariance - not another cluster's - also when the tasks run in several worker processes.  The reference answer is
    obtained here by solving each cluster's covariance again, directly, with the arguments the library uses."""
    from fast_ticc import admm
    from props.C20 import plain_run, _reap
    workers = case["workers"]
    cfg = {k: v for k, v in case.items() if k not in ("workers", "delays_ms")}
    cfg["eps"] = 0
    sync = e2e.run(dict(cfg), sync_pool=True, record_admm=True)
    if not sync.ok:
        t.discard(f"run raised {type(sync.exc).__name__}")
    kw = dict(sync.rounds[0]["admm"][0]["kwargs"])
    lam = sync.rounds[0]["admm"][0]["lam"]
    # (a) synchronous pool: recorded answer k belongs to cluster k
    for r, q in enumerate(sync.rounds):
        after = q["phases"]["optimize"]["after"]["clusters"]
        for k, call in enumerate(q["admm"]):
            if not _fit_is_own(after[k]["train_inverse"], call["theta"], 0):
                raise Violation(f"round {r}: the matrix stored for cluster {k} is not the optimiser's answer to the {k}-th task (its own covariance)")
    # (b) the library's own pool with several workers
    t0 = __import__("time").time()
    tr, left, timed_out = plain_run(dict(cfg, num_processors=workers), workers, 600.0, t)
    _reap(left)
    if timed_out or not tr.ok:
        t.discard("multi-worker run did not complete (C14/C20 decide that)")
    sizes_differ = False
    for r, q in enumerate(tr.rounds):
        stats = q["phases"]["statistics"]["after"]["clusters"]
        after = q["phases"]["optimize"]["after"]["clusters"]
        for k in range(case["K"]):
            S = np.atleast_2d(stats[k]["empirical_covariance"])
            own = admm.admm_optimize_theta(S, lam, case["W"], case["N"], **kw)
            if not _fit_is_own(after[k]["train_inverse"], own.theta, 0):
                # not the bits of a fresh solve.  A solver that starts from another point may legitimately end elsewhere within
                # its stopping tolerance, so only a clear miss counts: far from the own answer, or exactly another cluster's.
                from fast_ticc import matrix_compression
                own_full = matrix_compression.reinflate_matrix(np.array(own.theta, copy=True))
                stored = np.asarray(after[k]["train_inverse"])
                rel = float(np.max(np.abs(stored - own_full)) / max(float(np.max(np.abs(own_full))), 1e-300)) if stored.shape == own_full.shape else float("inf")
                whose = [j for j in range(case["K"]) if j != k and
                         _fit_is_own(after[k]["train_inverse"], admm.admm_optimize_theta(np.atleast_2d(stats[j]["empirical_covariance"]), lam, case["W"], case["N"], **kw).theta, 0)]
                if whose or rel > 1e-3:
                    raise Violation(f"round {r}, {workers} workers: the matrix stored for cluster {k} is not the optimiser's answer to cluster {k}'s "
                                    f"covariance (relative difference {rel:.3g})" + (f"; it is the answer to cluster {whose[0]}'s" if whose else ""))
                t.cls("stored_fit_differs_from_a_fresh_solve_within_tolerance")
        sz = [len(c["members"]) for c in stats]
        if len(set(sz)) == len(sz) and sorted(range(len(sz)), key=lambda i: sz[i]) != list(range(len(sz))):
            sizes_differ = True
    t.cls(f"workers_{workers}")
    t.cls(f"K={case['K']}")
    if sizes_differ:
        t.cls("cluster_sizes_not_in_index_order")
    if case["K"] >= 3:
        t.mark_nontrivial(ce.brief_result(tr))


def _multiworker_case():
    from props.C13 import multiworker_case
    return multiworker_case().map(lambda c: dict(c, K=max(3, c["K"]), lam_form="scalar"))


SUBCHECKS = [
    SubCheck(name="per_round_statistics_long_series", strategy=gen.e2e_long_config, execute=execute,
             budget={"quick": 15, "thorough": 300}, shards={"quick": 3, "thorough": 16}, modes=E2E_MODES),
    SubCheck(name="per_round_statistics_and_optimiser_arguments",
             strategy=lambda: gen.e2e_config(betas=(0.0, 0.5, 2.0, 10.0, 50.0, 400.0), limits=(2, 3, 5, 30),
                                             lam_forms=("scalar", "scalar", "const_matrix", "random_matrix", "asymmetric_matrix"), allow_degenerate=True,
                                             eps_values=(0, 0, 0, 1e-3, 0.05, 0.3)), execute=execute,
             budget={"quick": 160, "thorough": 4000}, shards={"quick": 16, "thorough": 8}, modes=E2E_MODES,
             min_nontrivial_fraction=0.25),
    SubCheck(name="stored_fit_is_the_clusters_own_also_with_worker_processes", strategy=_multiworker_case, execute=execute_fit_belongs_to_cluster,
             budget={"quick": 32, "thorough": 600}, shards={"quick": 16, "thorough": 16}, modes=E2E_MODES,
             shrink={"quick": False, "thorough": False}),
]
