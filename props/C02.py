"""C02 - the returned Theta is the block-Toeplitz graphical-lasso optimum (KKT certificate at the stopping point)."""
import numpy as np
from hypothesis import strategies as st

from harness import buffers
from harness.core import SubCheck, Violation, HarnessError
from harness.oracle import kkt

PROPERTY = "C02"
LEVEL = "exploration"
RULE = ("Hypothesis draws (N,W) with NW<=60, a PSD covariance S (sample covariance of 1..3NW points incl. rank-deficient, "
        "Q diag(e) Q^T with drawn spectra, diagonal, AR(1)-like strongly correlated, true stacked-window covariances; scaled "
        "1e-2..1e2), lambda in {0} U [1e-3,5] as float / constant matrix / random symmetric matrix, rho in [0.1,10], with or "
        "without a residual-balancing rho_update callback, solver tolerances default or drawn; S is expanded from a drawn "
        "integer by numpy's default_rng. The solver entry point is called directly; the guarded exit hook tells whether the "
        "stopping rule fired. Conditional clause: if it fired, the returned matrix must pass the KKT certificate of the "
        "block-Toeplitz graphical lasso relaxed by the solver's own stopping tolerances (see harness/oracle/kkt.py), computed "
        "from (Theta, S, lambda) only, with an independent enumeration of the Toeplitz classes. Unconditional clause: rho=1, "
        "no callback, spectrum of S in [0.25,4], lambda in [0,1] in all three forms -> the hook must report that the stop rule "
        "fired within the 1000-iteration budget. Non-trivial = stop rule fired, NW>=4, and the solution has at least one class "
        "whose mean is beyond the zero threshold and at least one below it (sparsity active); distinct by SHA-1 of the case."
        ' Covariances also as int64/int32/float32 arrays and nested lists of integers.')
ASSUMPTIONS = [
    "guarded hook admm_exit reports iterations and whether the stopping rule fired (not otherwise observable)",
    "certificate slack = solver's documented tolerances + 0.1% + an explicit bound on the error of the computed inverse",
    "lambda matrices are symmetric and non-negative (the property's domain)",
]


def _solver():
    try:
        from fast_ticc import admm, _verif
    except ImportError as e:
        raise HarnessError(str(e))
    return admm.admm_optimize_theta, _verif


def make_cov(kind, N, W, seed, scale, extra):
    n = N * W
    rng = np.random.default_rng(seed)
    if kind == "sample":
        ns = max(1, int(extra * 3 * n) + 1)
        A = rng.normal(size=(ns, n)) @ rng.normal(size=(n, n)) * 0.5
        S = np.cov(A.T, bias=True) if ns > 1 else np.zeros((n, n))
        S = np.atleast_2d(S)
    elif kind == "spectrum":
        Q, _ = np.linalg.qr(rng.normal(size=(n, n)))
        lo = 10.0 ** (-6 * extra)
        e = np.exp(rng.uniform(np.log(lo), 0.0, size=n))
        if extra > 0.8:
            e[: max(1, n // 3)] = 0.0          # exactly singular directions
        S = (Q * e) @ Q.T
    elif kind == "diagonal":
        S = np.diag(np.exp(rng.uniform(-3, 3, size=n) * extra))
    elif kind == "dead_channels":
        # a diagonal covariance in which some sensors are dead in every window position (exact zeros), or everything is zero
        d = np.exp(rng.uniform(-2, 2, size=N))
        dead = rng.random(N) < max(0.3, extra)
        if extra > 0.9:
            dead[:] = True
        d[dead] = 0.0
        S = np.diag(np.tile(d, W))
    elif kind == "ar1":
        phi = 0.5 + 0.499 * extra
        idx = np.arange(n)
        S = phi ** np.abs(idx[:, None] - idx[None, :])
    elif kind == "windows":
        T = max(n + 2, int(20 + 200 * extra))
        A = rng.normal(size=(N, N))
        A = A / max(1e-12, np.max(np.abs(np.linalg.eigvals(A))))      # spectral radius 1 -> stable after the 0.9 factor
        x = np.zeros((T + W, N))
        for tt in range(1, T + W):
            x[tt] = x[tt - 1] @ A.T * 0.9 + rng.normal(size=N)
        rows = np.hstack([x[j:j + T] for j in range(W)])
        S = np.cov(rows.T)
        S = np.atleast_2d(S)
    elif kind == "wellcond":       # spectrum inside [0.25, 4]
        Q, _ = np.linalg.qr(rng.normal(size=(n, n)))
        e = np.exp(rng.uniform(np.log(0.25), np.log(4.0), size=n))
        e = np.clip(e, 0.2500001, 3.9999999)
        S = (Q * e) @ Q.T
        scale = 1.0
    else:
        raise ValueError(kind)
    S = (S + S.T) / 2 * scale
    return S


def make_lambda(form, value, n, seed):
    if form == "scalar":
        return float(value)
    if form == "const_matrix":
        return np.full((n, n), float(value))
    rng = np.random.default_rng(seed + 17)
    M = rng.uniform(0.0, 1.0, size=(n, n)) * float(value)
    M = (M + M.T) / 2
    M[rng.random((n, n)) < 0.1] = 0.0
    M = np.triu(M) + np.triu(M, 1).T
    return M


def balancing_callback(rho, rp, tp, rd, td):
    if rp > 10 * rd:
        return min(rho * 2.0, 1e4)
    if rd > 10 * rp:
        return max(rho / 2.0, 1e-4)
    return rho


@st.composite
def general_case(draw):
    N = draw(st.integers(1, 8))
    W = draw(st.integers(1, max(1, min(10, 60 // N))))
    kind = draw(st.sampled_from(["sample", "sample", "spectrum", "diagonal", "ar1", "windows", "dead_channels"]))
    lam_form = draw(st.sampled_from(["scalar", "scalar", "const_matrix", "random_matrix"]))
    lam_value = draw(st.one_of(st.just(0.0), st.just(0.11), st.floats(1e-3, 5.0), st.floats(1e-3, 0.5)))
    return {
        "N": N, "W": W, "kind": kind, "seed": draw(st.integers(0, 2 ** 32 - 1)),
        "scale": draw(st.sampled_from([1e-2, 0.1, 1.0, 1.0, 10.0, 1e2])),
        "extra": draw(st.floats(0.0, 1.0)),
        "lam_form": lam_form, "lam_value": lam_value,
        "rho": draw(st.one_of(st.just(1.0), st.floats(0.1, 10.0))),
        "callback": draw(st.sampled_from([False, False, True])),
        "tols": draw(st.sampled_from([None, None, [1e-6, 1e-4], [1e-8, 1e-8], [1e-4, 1e-6]])),
        "max_iterations": draw(st.sampled_from([None, 400, 150])),
        "reuse_buffers": draw(st.booleans()),
        # a covariance with integer entries handed over in an integer element type or as nested lists (a count matrix, np.diag of
        # ints): the same matrix, so the same answer
        "S_container": draw(st.sampled_from([None, None, None, None, "int64", "int32", "nested_list", "float32"])),
    }


@st.composite
def unconditional_case(draw):
    N = draw(st.integers(1, 8))
    W = draw(st.integers(1, max(1, min(10, 60 // N))))
    return {
        "N": N, "W": W, "kind": "wellcond", "seed": draw(st.integers(0, 2 ** 32 - 1)), "scale": 1.0,
        "extra": 0.0, "lam_form": draw(st.sampled_from(["scalar", "const_matrix", "random_matrix"])),
        "lam_value": draw(st.one_of(st.just(0.0), st.just(1.0), st.floats(0.0, 1.0))),
        "rho": 1.0, "callback": False, "tols": None, "unconditional": True, "reuse_buffers": draw(st.booleans()),
    }


def execute(case, t):
    solve, verif = _solver()
    from fast_ticc import matrix_compression
    N, W = case["N"], case["W"]
    n = N * W
    S = make_cov(case["kind"], N, W, case["seed"], case["scale"], case["extra"])
    lam = make_lambda(case["lam_form"], case["lam_value"], n, case["seed"])
    if case.get("reuse_buffers"):
        # the caller keeps one covariance / one weight array and refills it between solves (what a sweep does)
        S = buffers.reuse("C02.S", S)
        if isinstance(lam, np.ndarray):
            lam = buffers.reuse("C02.lam", lam)
        t.cls("caller_buffers_reused")
    S_arg = S
    if case.get("S_container"):
        # integer-valued PSD matrix G^T G / 4 from a rounded factor of S (entries are multiples of 1/4 -> times 4 is integral)
        w_, v_ = np.linalg.eigh((S + S.T) / 2)
        G = np.round((v_ * np.sqrt(np.clip(w_, 0, None))).T * 2.0)
        Sint = G.T @ G                      # integer entries, PSD
        if not np.any(Sint):
            Sint = np.eye(n)
        S = Sint.astype(np.float64)
        kind_ = case["S_container"]
        if kind_ in ("int64", "int32"):
            S_arg = Sint.astype(kind_)
        elif kind_ == "float32":
            S_arg = Sint.astype(np.float32) if float(np.max(np.abs(Sint))) < 2 ** 24 else S
        else:
            S_arg = [[int(v) for v in row] for row in Sint]
        t.cls(f"covariance_given_as_{kind_}")
    S0 = S.copy()
    lam0 = lam.copy() if isinstance(lam, np.ndarray) else lam
    events = []

    def listener(ev, payload):
        if ev == "admm_exit":
            events.append({"iterations": payload["iterations"], "fired": bool(payload["stop_rule_fired"])})
    verif.listeners.append(listener)
    kwargs = {"rho": case["rho"], "rho_update": balancing_callback if case["callback"] else None}
    abs_tol = rel_tol = 1e-6
    if case.get("tols"):
        abs_tol, rel_tol = case["tols"]
        kwargs["absolute_tolerance"] = abs_tol
        kwargs["relative_tolerance"] = rel_tol
    if case.get("max_iterations"):
        kwargs["max_iterations"] = case["max_iterations"]
    try:
        try:
            res = solve(S_arg, lam, W, N, **kwargs)
        except Exception as e:
            if case.get("unconditional"):
                raise Violation(f"optimiser raised {type(e).__name__}: {e} in the regime where it must always stop within budget")
            t.discard(f"optimiser raised {type(e).__name__}")
    finally:
        verif.listeners.remove(listener)
    if len(events) != 1:
        raise HarnessError(f"expected exactly one admm_exit event, saw {len(events)} (is FAST_TICC_VERIF set?)")
    fired, iters = events[0]["fired"], events[0]["iterations"]
    t.cls(f"lambda_{case['lam_form']}")
    t.cls(f"cov_{case['kind']}")
    t.cls("callback" if case["callback"] else "no_callback")
    if case["lam_value"] == 0.0:
        t.cls("lambda=0")
    if not fired:
        if case.get("unconditional"):
            raise Violation(f"optimiser exhausted its budget ({iters} iterations) with rho=1, no callback, spectrum in [0.25,4], "
                            f"lambda={case['lam_value']} ({case['lam_form']}), N={N}, W={W}")
        t.cls("budget_exhausted")
        t.discard("stop rule did not fire (conditional clause makes no claim)")
    t.max("max_iterations_when_stopped", iters)
    theta = getattr(res, "theta", None)
    if not isinstance(theta, np.ndarray) or theta.shape != (n * (n + 1) // 2,):
        raise Violation(f"optimiser result does not carry a compressed theta of length {n * (n + 1) // 2}: {type(theta).__name__} "
                        f"{getattr(theta, 'shape', None)}")
    X = matrix_compression.reinflate_matrix(theta)
    if not np.array_equal(S, S0) or (isinstance(lam, np.ndarray) and not np.array_equal(lam, lam0)):
        raise Violation("optimiser modified its covariance or lambda argument")
    cert = kkt.certificate(X, S, lam, N, W, abs_tol=abs_tol, rel_tol=rel_tol)
    if not cert["ok"]:
        raise Violation(f"stop rule fired after {iters} iterations but the returned matrix fails the optimality certificate: "
                        f"{cert['reason']} (N={N}, W={W}, lambda {case['lam_form']}={case['lam_value']}, rho={case['rho']}, "
                        f"callback={case['callback']}, cov={case['kind']})", worst_ratio=cert.get("worst_ratio"))
    t.max("worst_certificate_ratio", round(float(cert["worst_ratio"]), 4))
    if np.linalg.matrix_rank(S) < n:
        t.cls("rank_deficient_S")
    if cert["active"] and cert["inactive"]:
        t.cls("sparsity_active")
    if n >= 4 and cert["active"] and cert["inactive"]:
        t.mark_nontrivial({"iterations": iters, "active_classes": cert["active"], "zero_classes": cert["inactive"],
                           "worst_ratio": round(cert["worst_ratio"], 4)})
    elif case.get("unconditional") and n >= 4:
        t.mark_nontrivial({"iterations": iters, "active_classes": cert["active"], "zero_classes": cert["inactive"]})


SUBCHECKS = [
    SubCheck(name="kkt_certificate_when_stopped", strategy=general_case, execute=execute,
             budget={"quick": 360, "thorough": 20000}, shards={"quick": 8, "thorough": 16}, modes=["jit"],
             min_nontrivial_fraction=0.1),
    SubCheck(name="always_stops_in_restricted_regime", strategy=unconditional_case, execute=execute,
             budget={"quick": 240, "thorough": 12000}, shards={"quick": 6, "thorough": 16}, modes=["jit"],
             min_nontrivial_fraction=0.2),
]
