"""C05 - reported log-likelihoods are exact Gaussian log-densities."""
import math

import numpy as np
from hypothesis import strategies as st

from harness import gen
from harness.core import SubCheck, Violation, E2E_MODES
from harness.oracle import gaussian_ref
from props import common_e2e as ce

PROPERTY = "C05"
LEVEL = "exploration"
RULE = ("Kernel level: Hypothesis draws NW in 1..200 (every N*W factorisation), K in 1..4, 1..6 points, SPD precision "
        "matrices Q diag(e) Q^T with condition number <= 1e8 (<= 1e4 in ~90% of cases) whose log-determinant is steered to a "
        "drawn target in [-3000, 3000], random means and points (seed-expanded; in 5 of 8 families zero-centred, otherwise with "
        "a common offset 2^8..2^40 and exactly representable differences, so cancellation-prone rewrites of the quadratic form show); a ModelState is built from the public "
        "containers and the all-points/all-clusters table and the per-point function are compared entrywise with "
        "1/2(log det Theta - (x-mu)^T Theta (x-mu) - NW log 2pi), log det from a Cholesky factor, tolerance "
        "(1e-9 + 4 n^2 eps kappa)(1+|ref|), every value finite; JIT-compiled and interpreted kernels. End to end: in every "
        "round of completed traced runs the cost table handed to the labelling step equals minus the reference table of "
        "that round's model, and all_log_likelihood / sum / mean / median / per-cluster mean+median equal those of the "
        "labelled windows' reference densities under the final model. Non-trivial (kernel) = |log det| > 745 (outside the "
        "exp range of a double) or NW >= 50; (e2e) = >= 2 populated clusters; distinct by SHA-1 of the case."
        ' The kernel sub-check also runs with Numba not importable.'
        ' Points also Fortran-ordered / transposed / row-strided; 32769..66000 points for NW<=3.')
ASSUMPTIONS = ["cluster means of the final model are read through the guarded run_end hook (not part of the public result)",
               "tolerance (1e-9 + 4 n^2 eps kappa)(1+|ref|): kappa term bounds legitimate cancellation in the quadratic form / LU determinant"]


@st.composite
def kernel_case(draw):
    nw = draw(st.one_of(st.integers(1, 12), st.integers(1, 60), st.integers(50, 200)))
    divisors = [w for w in range(1, nw + 1) if nw % w == 0]
    W = draw(st.sampled_from(divisors))
    K = draw(st.integers(1, 4))
    T = draw(st.integers(1, 6))
    many = None
    if nw <= 3 and draw(st.integers(0, 24)) == 0:
        # more points than any block size a chunked evaluation is likely to use, and not a multiple of one
        many = draw(st.sampled_from([32769, 33000, 40000, 65537, 66000]))
    kappa_exp = draw(st.one_of(st.floats(0, 4), st.floats(0, 4), st.floats(0, 4), st.floats(0, 4), st.floats(4, 8)))
    targets = [draw(st.one_of(st.floats(-3000, 3000), st.sampled_from([-3000.0, 3000.0, -800.0, 800.0, 0.0]))) for _ in range(K)]
    return {"nw": nw, "W": W, "K": K, "T": T, "kappa_exp": kappa_exp, "logdet_targets": targets,
            "seed": draw(st.integers(0, 2 ** 32 - 1)), "spread": draw(st.sampled_from([0.1, 1.0, 10.0])),
            "offset_pow2": draw(st.sampled_from([None, None, None, 8, 16, 24, 32, 40])),
            "points_dtype": draw(st.sampled_from(["float64", "float64", "float64", "float32"])),
            "rescore_after_update": draw(st.booleans()) and not many, "points_on_means": draw(st.sampled_from([False, False, True])),
            "points_layout": draw(st.sampled_from(["C", "C", "F", "transposed_view", "row_strided"])),
            "many_points": many}


def build_kernel_inputs(case):
    rng = np.random.default_rng(case["seed"])
    nw, K, T = case["nw"], case["K"], case["T"]
    thetas, means = [], []
    for k in range(K):
        Q, _ = np.linalg.qr(rng.normal(size=(nw, nw)))
        e = np.exp(rng.uniform(0, case["kappa_exp"] * math.log(10), size=nw))
        target = min(max(case["logdet_targets"][k], -200.0 * nw), 200.0 * nw)     # keep every eigenvalue inside e^+-220
        e = e * math.exp((target - float(np.sum(np.log(e)))) / nw)
        th = (Q * e) @ Q.T
        thetas.append((th + th.T) / 2)
        means.append(rng.normal(0, case["spread"], size=nw))
    pts = rng.normal(0, case["spread"], size=(T, nw)) + means[0] * rng.integers(0, 2, size=(T, 1))
    if case.get("offset_pow2") is not None:
        # data with a large common offset relative to its spread: 2**k + (multiples of 2**-8 in [-4,4]); every value and
        # every difference point - mean is exactly representable, so the reference density carries no input rounding
        off = 2.0 ** case["offset_pow2"]
        means = [off + rng.integers(-1024, 1025, size=nw) / 256.0 for _ in range(K)]
        pts = off + rng.integers(-1024, 1025, size=(T, nw)) / 256.0
    if case.get("points_on_means"):
        # windows that coincide exactly with a cluster's mean window (idle stretches, one-member clusters): distance exactly 0
        for i in range(min(len(pts), K)):
            pts[i] = means[i % K]
    if case.get("many_points"):
        reps = int(case["many_points"])
        pts = np.concatenate([pts, rng.normal(0, case["spread"], size=(reps - len(pts), nw)) + means[0] * rng.integers(0, 2, size=(reps - len(pts), 1))])
    if case.get("points_dtype") == "float32":
        pts = pts.astype(np.float32)              # the reference is computed from exactly these stored values
    lay = case.get("points_layout", "C")
    if lay == "F":
        pts = np.asfortranarray(pts)
    elif lay == "transposed_view":
        pts = np.ascontiguousarray(pts.T).T       # X.T of a (features x time) array
    elif lay == "row_strided":
        big = np.zeros((2 * len(pts), pts.shape[1]), dtype=pts.dtype)
        big[::2] = pts
        pts = big[::2]
    return thetas, means, pts


def execute_kernel(case, t):
    from fast_ticc import likelihood
    from fast_ticc.containers import arguments, model_state
    thetas, means, pts = build_kernel_inputs(case)
    nw, K, W = case["nw"], case["K"], case["W"]
    args = arguments.UserArguments(sparsity_weight=0.1, iteration_limit=1, label_switching_cost=1.0, min_cluster_size=2,
                                   min_meaningful_covariance=0, num_clusters=K, num_processors=1, window_size=W,
                                   biased_covariance=False)
    ms = model_state.ModelState.empty_model(args, pts)
    for k in range(K):
        ms.clusters[k].train_inverse = thetas[k].copy()
        ms.clusters[k].stacked_data_mean = means[k].copy()
    try:
        table = likelihood.all_points_all_clusters_log_likelihood(ms, pts)
    except Exception as e:
        raise Violation(f"likelihood table raised {type(e).__name__}: {e} (NW={nw}, K={K})")
    ref, kappas, logdets = gaussian_ref.log_density_table(np.asarray(pts, dtype=np.float64), means, thetas)
    if case.get("rescore_after_update"):
        # the same model object is fitted again (new precision matrices and means put into the same clusters, as an
        # outer loop that keeps its ModelState does) and scored again: nothing of the first scoring may linger
        case2 = dict(case, seed=(case["seed"] + 1) % (2 ** 32), logdet_targets=[-x * 0.5 + 3.0 for x in case["logdet_targets"]],
                     rescore_after_update=False)
        thetas2, means2, _ = build_kernel_inputs(case2)
        for k in range(K):
            ms.clusters[k].train_inverse = thetas2[k].copy()
            ms.clusters[k].stacked_data_mean = means2[k].copy()
        try:
            table = likelihood.all_points_all_clusters_log_likelihood(ms, pts)
        except Exception as e:
            raise Violation(f"likelihood table raised {type(e).__name__}: {e} on the second scoring of the same model (NW={nw})")
        thetas, means = thetas2, means2
        ref, kappas, logdets = gaussian_ref.log_density_table(np.asarray(pts, dtype=np.float64), means, thetas)
        t.cls("same_model_rescored_after_update")
    table = np.asarray(table)
    if table.shape != ref.shape:
        raise Violation(f"likelihood table has shape {table.shape}, expected {ref.shape}")
    if not np.all(np.isfinite(table)):
        bad = np.argwhere(~np.isfinite(table))[0]
        raise Violation(f"likelihood table entry {tuple(bad)} is {table[tuple(bad)]!r} for a PD precision matrix with "
                        f"log det {logdets[bad[1]]:.1f} (NW={nw})")
    for k in range(K):
        tol = gaussian_ref.tolerance(ref[:, k], nw, kappas[k])
        err = np.abs(table[:, k] - ref[:, k])
        if np.any(err > tol):
            i = int(np.argmax(err - tol))
            raise Violation(f"log-likelihood of point {i} under cluster {k} is {table[i, k]!r}, reference {ref[i, k]!r} "
                            f"(|diff| {err[i]:.3g} > tol {tol[i]:.3g}; NW={nw}, kappa={kappas[k]:.3g}, log det={logdets[k]:.1f})")
        # the per-point entry (used for the result's per-point values) must agree as well
        c = ms.clusters[k]
        for i in (range(pts.shape[0]) if pts.shape[0] <= 64 else list(range(8)) + list(range(pts.shape[0] - 8, pts.shape[0]))):
            v = float(likelihood.point_log_likelihood(pts[i], c, W, nw // W))
            
            if not math.isfinite(v) or abs(v - ref[i, k]) > tol[i]:
                raise Violation(f"point_log_likelihood(point {i}, cluster {k}) = {v!r}, reference {ref[i, k]!r} (NW={nw})")
        t.max("max_rel_error", float(np.max(err / (1 + np.abs(ref[:, k])))))
    t.cls("NW>=50" if nw >= 50 else "NW<50")
    if case.get("points_layout", "C") != "C":
        t.cls(f"points_layout_{case['points_layout']}")
    if case.get("many_points"):
        t.cls("more_than_32768_points")
    big = any(abs(ld) > 745 for ld in logdets)
    if big:
        t.cls("logdet_outside_exp_range")
    if max(kappas) > 1e4:
        t.cls("kappa>1e4")
    if case.get("offset_pow2") is not None:
        t.cls("large_common_offset")
    if case.get("points_dtype") == "float32":
        t.cls("points_stored_as_float32")
    if case.get("points_on_means"):
        t.cls("points_exactly_on_a_mean")
    if big or nw >= 50:
        t.mark_nontrivial({"NW": nw, "logdets": [round(x, 1) for x in logdets], "kappa": [float(f"{k:.3g}") for k in kappas]})


def execute_e2e(case, t):
    tr = ce.traced_run(case, t, sync_pool=True, record_admm=False)
    stacked = tr.begin["stacked"]
    nw = stacked.shape[1]
    # every round: the table the labelling step was given
    for r, q in enumerate(tr.rounds):
        ri = q["relabel_inputs"]
        if ri is None:
            raise Violation(f"round {r}: labelling step ran without emitting its inputs")
        table, kappas, _ = ce.reference_densities(ri["model"], stacked)
        if table is None:
            t.discard("a round's model has a non-PD MRF (C03's business)")
        cost = np.asarray(ri["cost"])
        if cost.shape != table.shape:
            raise Violation(f"round {r}: cost table has shape {cost.shape}, expected {table.shape}")
        for k in range(table.shape[1]):
            tol = gaussian_ref.tolerance(table[:, k], nw, kappas[k])
            err = np.abs(-cost[:, k] - table[:, k])
            if not np.all(np.isfinite(cost[:, k])) or np.any(err > tol):
                i = int(np.argmax(np.where(np.isfinite(err), err - tol, np.inf)))
                raise Violation(f"round {r}: cost table entry ({i},{k}) is {cost[i, k]!r}, minus reference log-density is {-table[i, k]!r}")
    # final result
    res = tr.result
    master = tr.end["model"]["labels"]
    table, kappas, _ = ce.reference_densities(tr.end["model"], stacked)
    if table is None:
        t.discard("final model has a non-PD MRF (C03's business)")
    T = len(master)
    ref = np.array([table[i, master[i]] for i in range(T)])
    tol = np.array([gaussian_ref.tolerance(ref[i], nw, kappas[master[i]]) for i in range(T)])
    got = np.array([float(v) for v in res.all_log_likelihood])
    if len(got) != T:
        raise Violation(f"all_log_likelihood has {len(got)} entries for {T} labelled windows")
    order = np.argsort(ref)
    gs = np.sort(got)
    if np.any(~np.isfinite(gs)) or np.any(np.abs(gs - ref[order]) > tol[order]):
        raise Violation("all_log_likelihood is not the multiset of reference log-densities of the labelled windows under the final model")
    tot_tol = float(np.sum(tol)) + 1e-9 * float(np.sum(np.abs(ref)))
    if abs(float(res.overall_log_likelihood) - float(np.sum(ref))) > tot_tol:
        raise Violation(f"overall_log_likelihood {res.overall_log_likelihood!r} != sum of reference densities {float(np.sum(ref))!r}")
    if abs(float(res.overall_log_likelihood_mean) - float(np.mean(ref))) > tot_tol / T:
        raise Violation(f"overall_log_likelihood_mean {res.overall_log_likelihood_mean!r} != {float(np.mean(ref))!r}")
    if abs(float(res.overall_log_likelihood_median) - float(np.median(ref))) > float(np.max(tol)) * 2:
        raise Violation(f"overall_log_likelihood_median {res.overall_log_likelihood_median!r} != {float(np.median(ref))!r}")
    populated = 0
    for k in range(case["K"]):
        idx = [i for i in range(T) if master[i] == k]
        if not idx:
            continue
        populated += 1
        slack = float(np.max(tol[idx])) * 2
        if abs(float(res.cluster_log_likelihood_mean[k]) - float(np.mean(ref[idx]))) > slack:
            raise Violation(f"cluster {k} mean log-likelihood {res.cluster_log_likelihood_mean[k]!r} != {float(np.mean(ref[idx]))!r}")
        if abs(float(res.cluster_log_likelihood_median[k]) - float(np.median(ref[idx]))) > slack:
            raise Violation(f"cluster {k} median log-likelihood {res.cluster_log_likelihood_median[k]!r} != {float(np.median(ref[idx]))!r}")
    ce.classify(tr, t)
    if populated >= 2:
        t.mark_nontrivial(ce.brief_result(tr))


def _pinned_kernel():
    return [{"nw": 100, "W": 10, "K": 2, "T": 3, "kappa_exp": 2.0, "logdet_targets": [3000.0, -3000.0], "seed": 11, "spread": 1.0},
            {"nw": 200, "W": 8, "K": 1, "T": 2, "kappa_exp": 1.0, "logdet_targets": [-2500.0], "seed": 12, "spread": 1.0},
            {"nw": 1, "W": 1, "K": 2, "T": 2, "kappa_exp": 0.0, "logdet_targets": [0.0, 5.0], "seed": 13, "spread": 1.0}]


SUBCHECKS = [
    SubCheck(name="likelihood_kernels_vs_textbook_density", strategy=kernel_case, execute=execute_kernel, pinned=_pinned_kernel,
             budget={"quick": 500, "thorough": 20000}, shards={"quick": 4, "thorough": 8}, modes=["jit", "nojit", "nonumba"],
             min_nontrivial_fraction=0.3),
    SubCheck(name="end_to_end_tables_and_result_fields", strategy=lambda: gen.e2e_config(betas=(0.0, 0.5, 2.0, 10.0, 50.0), offsets=(0.0, 0.0, 1e3, 1e5, -1e6), scales=True, scale_prob=0.3),
             execute=execute_e2e, budget={"quick": 128, "thorough": 3000}, shards={"quick": 16, "thorough": 8}, modes=E2E_MODES,
             min_nontrivial_fraction=0.3),
]
