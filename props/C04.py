"""C04 - one label per input row; the unlabeled margin is exactly W-1 points; K, W and MRF shapes echoed."""
import itertools

import numpy as np

from harness import gen
from harness.core import SubCheck, Violation, E2E_MODES
from props import common_e2e as ce

PROPERTY = "C04"
LEVEL = "exploration"
RULE = ("End to end: Hypothesis draws run configurations (N in 1..4, W in 1..7 odd and even, K in 2..4, single front end "
        "or joint front end with 1..6 series of unequal length from W+K+2 upward, any beta/lambda/m/iteration limit) and "
        "executes them on seeded piecewise-stationary data with the library RNGs seeded from the case. Oracle: exactly T "
        "labels per series, exactly the first floor((W-1)/2) and last (W-1)-floor((W-1)/2) are -1 and all others integers in "
        "[0,K); K MRFs of shape NW x NW; num_clusters and window_size echoed; joint: one list per series in input order, "
        "each as long as its series, and the inner labels concatenated equal the final master labelling seen at the "
        "run_end hook split at the cumulative stacked lengths. Helper level: pad_missing_labels / split_joint_labels "
        "enumerated over all W<=12 x list lengths<=6 and all tuples of <=4 lengths in 1..5. Also: single series with fewer rows "
        "than sensors; per-pair switching-cost vectors with exact zeros at the chain ends. Runs that the library refuses "
        "(RuntimeError, AssertionError, ValueError incl. LinAlgError) are discarded and counted; a run that dies with a "
        "KeyError/IndexError/AttributeError/NameError/TypeError on a valid input is reported (no labels were returned). "
        "Non-trivial = completed run with W>=2 (a margin exists); joint runs with >=2 distinct lengths are "
        "counted separately; distinct by SHA-1 of the case."
        ' Joint runs: block i of the stacked data must be the stacking of input series i (input order). Series with fewer rows than sensors; cost vectors with exact zeros; the multiprocessing switch as a run option.'
        ' Calls also positional (data, W, K) and with tuple / generator / iterator containers.')
ASSUMPTIONS = ["the master labelling is observed through the guarded run_end hook", "data are finite"]


def _check_series_labels(labels, T, W, K, who):
    if not isinstance(labels, (list, tuple, np.ndarray)):
        raise Violation(f"{who}: point_labels is a {type(labels).__name__}, expected a list")
    if len(labels) != T:
        raise Violation(f"{who}: {len(labels)} labels for a series of {T} rows (W={W})")
    front = (W - 1) // 2
    back = (W - 1) - front
    inner = []
    for i, v in enumerate(labels):
        if isinstance(v, (bool, np.bool_)) or not isinstance(v, (int, np.integer)):
            raise Violation(f"{who}: label {i} is {v!r} ({type(v).__name__}), not an integer")
        margin = i < front or i >= T - back
        if margin:
            if int(v) != -1:
                raise Violation(f"{who}: position {i} lies in the unlabeled margin (front {front}, back {back}, T={T}, W={W}) "
                                f"but carries label {int(v)}")
        else:
            if not 0 <= int(v) < K:
                raise Violation(f"{who}: label {i} = {int(v)} outside [0,{K}) and outside the margin (front {front}, back {back}, T={T}, W={W})")
            inner.append(int(v))
    return inner


CRASH_TYPES = (LookupError, AttributeError, NameError, TypeError)


def execute(case, t):
    from harness import e2e
    tr = e2e.run(case, sync_pool=True, record_admm=False)
    if not tr.ok and isinstance(tr.exc, CRASH_TYPES):
        # The library refuses some valid-looking inputs on purpose (RuntimeError: donor shortage / one-point cluster, AssertionError:
        # empty initial cluster, ValueError from the mixture model or a singular matrix): those runs "do not complete" and are set
        # aside.  A KeyError / IndexError / AttributeError / NameError / TypeError out of a call with a valid series and valid
        # hyper-parameters is not a refusal: the front end failed to return the labels the statement promises for every series.
        raise Violation(f"the front end did not return labels for a valid input: it crashed with {type(tr.exc).__name__}: {str(tr.exc)[:160]}")
    if not tr.ok:
        t.discard(f"run raised {type(tr.exc).__name__}: {str(tr.exc)[:70]}")
    if tr.end is None or tr.begin is None:
        raise Violation("run returned a result without passing through the main loop's begin/end hooks")
    res = tr.result
    W, K, N = case["W"], case["K"], case["N"]
    nw = N * W
    if res.num_clusters != K or isinstance(res.num_clusters, bool):
        raise Violation(f"num_clusters echoed as {res.num_clusters!r}, requested {K}")
    if res.window_size != W:
        raise Violation(f"window_size echoed as {res.window_size!r}, requested {W}")
    mrfs = res.markov_random_fields
    if len(mrfs) != K:
        raise Violation(f"{len(mrfs)} Markov random fields returned for K={K}")
    for k, m in enumerate(mrfs):
        if not isinstance(m, np.ndarray) or m.shape != (nw, nw):
            raise Violation(f"MRF {k} has shape {getattr(m, 'shape', None)}, expected {(nw, nw)}")
    master = tr.end["model"]["labels"]
    if case["front"] == "single":
        inner = _check_series_labels(res.point_labels, len(tr.series[0]), W, K, "single front end")
        if inner != master:
            raise Violation("labelled part of the result differs from the final master labelling")
    else:
        pl = res.point_labels
        if not isinstance(pl, (list, tuple)) or len(pl) != len(tr.series):
            raise Violation(f"joint front end returned {len(pl) if hasattr(pl, '__len__') else '?'} label lists for {len(tr.series)} series")
        # "in input order": block i of the data the labelling was computed on is the stacking of series i (so that the i-th
        # slice of the master labelling really belongs to the i-th series)
        pos = 0
        stacked = np.asarray(tr.begin["stacked"])
        for si, srs in enumerate(tr.series):
            a = np.asarray(srs, dtype=np.float64)
            L = len(a) - W + 1
            ref = np.lib.stride_tricks.sliding_window_view(a, W, axis=0).transpose(0, 2, 1).reshape(L, W * a.shape[1])
            if stacked[pos:pos + L].shape != ref.shape or not np.array_equal(stacked[pos:pos + L], ref, equal_nan=True):
                raise Violation(f"the windows labelled as series {si} (rows [{pos},{pos + L}) of the stacked data) are not the windows of "
                                f"input series {si}: label lists are not in input order (lengths {[len(x) for x in tr.series]}, W={W})")
            pos += L
        inner_all = []
        for si, (lst, s) in enumerate(zip(pl, tr.series)):
            inner_all.extend(_check_series_labels(lst, len(s), W, K, f"joint front end, series {si}"))
        if inner_all != master:
            # locate the first series whose inner labels differ from its slice of the master labelling
            pos = 0
            for si, L in enumerate(ce.stacked_lengths(tr)):
                front = (W - 1) // 2
                got = [int(v) for v in pl[si]][front:front + L]
                if got != master[pos:pos + L]:
                    raise Violation(f"series {si}: its labels are not the master labelling's slice [{pos},{pos + L}) "
                                    f"(lengths {[len(s) for s in tr.series]}, W={W})")
                pos += L
            raise Violation("concatenated per-series labels differ from the master labelling")
    ce.classify(tr, t)
    t.cls(f"W={'odd' if W % 2 else 'even'}")
    if W == 1:
        t.cls("W=1")
    if case["front"] == "joint" and len(set(len(s) for s in tr.series)) >= 2:
        t.cls("joint_unequal_lengths")
    if any(len(s) - W + 1 <= 3 for s in tr.series):
        t.cls("series_with_stacked_length<=3")
    if W >= 2:
        t.mark_nontrivial({"lengths": [len(s) for s in tr.series], "W": W, **ce.brief_result(tr)})


# ----------------------------------------------------------------------------- helpers, enumerated

def enumerate_helpers(tier):
    for W in range(1, 13):
        for n in range(0, 7):
            yield {"kind": "pad", "W": W, "n": n}
    for k in range(1, 5):
        for lens in itertools.product(range(1, 6), repeat=k):
            yield {"kind": "split", "lens": list(lens)}


def execute_helpers(case, t):
    from fast_ticc import data_preparation as dp
    if case["kind"] == "pad":
        W, n = case["W"], case["n"]
        orig = [(7 * i + 3) % 5 for i in range(n)]
        got = dp.pad_missing_labels(list(orig), W)
        front = (W - 1) // 2
        back = (W - 1) - front
        if got != [-1] * front + orig + [-1] * back:
            raise Violation(f"pad_missing_labels(n={n}, W={W}) = {got}, expected {front} leading and {back} trailing -1")
        if W >= 2 and n >= 1:
            t.mark_nontrivial()
    else:
        lens = case["lens"]
        labels = [(3 * i + 1) % 7 for i in range(sum(lens))]
        parts = dp.split_joint_labels(list(labels), list(lens))
        if [len(p) for p in parts] != lens or [v for p in parts for v in p] != labels:
            raise Violation(f"split_joint_labels with lengths {lens} returned parts of lengths {[len(p) for p in parts]}")
        if len(lens) >= 2:
            t.mark_nontrivial()


def _strategy():
    return gen.e2e_config(front=("single", "joint", "joint"), max_N=4, max_W=7, max_K=4, t_range=(30, 110),
                          limits=(1, 1, 2, 3, 4), betas=(0.0, 1.0, 5.0, 25.0, 200.0), allow_short=True,
                          beta_forms=("scalar", "vector"), joint_vector=True)


def execute_wide(case, t):
    execute(case, t)
    T = case["lengths"][0]
    t.cls("rows<sensors" if T < case["N"] else ("rows==sensors" if T == case["N"] else "rows>sensors"))


SUBCHECKS = [
    SubCheck(name="front_end_shapes", strategy=_strategy, execute=execute,
             budget={"quick": 160, "thorough": 3200}, shards={"quick": 16, "thorough": 8}, modes=E2E_MODES,
             min_nontrivial_fraction=0.3),
    SubCheck(name="front_end_shapes_series_wider_than_long", strategy=gen.e2e_wide_series_config, execute=execute_wide,
             budget={"quick": 32, "thorough": 400}, shards={"quick": 8, "thorough": 8}, modes=E2E_MODES,
             min_nontrivial_fraction=0.1),
    SubCheck(name="pad_split_helpers_enumerated", enumerate=enumerate_helpers, execute=execute_helpers, exhaustive=True,
             budget={"quick": 1, "thorough": 1}, shards={"quick": 1, "thorough": 1}, modes=["jit", "pyopt"]),
]
