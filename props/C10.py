"""C10 - window stacking is exact (bit for bit) and never crosses a series boundary; split+pad restore lengths."""
import numpy as np
from hypothesis import strategies as st

from harness import buffers
from harness.core import SubCheck, Violation

PROPERTY = "C10"
LEVEL = "exploration"
RULE = ("Hypothesis draws W in [1,12], N in [1,6], 1..6 series with lengths T_i in [W, W+40] and float64 contents as raw "
        "64-bit patterns (quiet/signalling NaN payloads, +-inf, -0.0, subnormals, ordinary values), C or Fortran order or a "
        "strided view, writable or read-only. Oracle: an independent construction expected[i, jN:(j+1)N] = series[i+j] compared "
        "as uint64 views; multi-series result must equal the row-wise concatenation of the per-series expectations; "
        "split_joint_labels + pad_missing_labels must return one list per series of the original length whose inner parts "
        "concatenate to the input. Non-trivial = W>=2 and some T_i>W (windows really overlap); distinct by SHA-1 of the case."
        ' Layouts include row-strided (recordings interleaved in one buffer) and negative row stride; cases run under ambient DEBUG logging, floating-point errors raised, warnings as errors, the multiprocessing switch set, and in a python -O process.')
ASSUMPTIONS = ["float64 inputs only: bit-exactness is stated for doubles; other dtypes are converted by NumPy and are outside the property"]

SPECIAL_BITS = [0x7FF8000000000000, 0x7FF0000000000001, 0xFFF8DEADBEEF0001, 0x7FF0000000000000, 0xFFF0000000000000,
                0x8000000000000000, 0x0000000000000001, 0x800FFFFFFFFFFFFF, 0x7FEFFFFFFFFFFFFF, 0x3FF0000000000000]


def _dp():
    from fast_ticc import data_preparation
    return data_preparation


@st.composite
def stacking_case(draw):
    W = draw(st.integers(1, 12))
    N = draw(st.integers(1, 6))
    nser = draw(st.sampled_from([1, 1, 2, 3, 4, 5, 6]))
    lens = [draw(st.one_of(st.just(W), st.integers(W, W + 40), st.integers(W + 1, W + 40), st.integers(W + 1, W + 40)))
            for _ in range(nser)]
    seed = draw(st.integers(0, 2 ** 32 - 1))
    special_rate = draw(st.sampled_from([0.0, 0.1, 0.5, 1.0]))
    layout = draw(st.sampled_from(["C", "C", "F", "strided", "readonly", "row_strided", "row_reversed"]))
    small = sum(lens) * N <= 24
    explicit = None
    if small:
        explicit = [draw(st.lists(st.one_of(st.sampled_from(SPECIAL_BITS), st.integers(0, 2 ** 64 - 1)),
                                  min_size=L * N, max_size=L * N)) for L in lens]
    labels_seed = draw(st.integers(0, 2 ** 16))
    return {"W": W, "N": N, "lens": lens, "seed": seed, "special_rate": special_rate, "layout": layout,
            "explicit_bits": explicit, "labels_seed": labels_seed, "reuse_buffers": draw(st.booleans()),
            "as_views": draw(st.one_of(st.none(), st.none(), st.permutations(list(range(6))))),
            "narrow_first": draw(st.sampled_from([None, None, None, "float32", "float16"])),
            # the kind of array object the caller holds (C-ordered, own data): subclass, masked array without a mask, np.matrix,
            # memory map - the stacking is a copy of rows whatever the container
            "array_kind": draw(st.sampled_from([None, None, None, None, "subclass", "masked", "memmap_rw", "memmap_ro"]))}


def build_series(case):
    rng = np.random.default_rng(case["seed"])
    out = []
    for si, L in enumerate(case["lens"]):
        n = L * case["N"]
        if case.get("explicit_bits"):
            bits = np.array(case["explicit_bits"][si], dtype=np.uint64)
        else:
            bits = rng.integers(0, 2 ** 64, size=n, dtype=np.uint64)
            ordinary = rng.normal(0, 1e3, size=n).view(np.uint64)
            pick = rng.random(n)
            bits = np.where(pick < 0.5, ordinary, bits)
            sp = rng.random(n) < case["special_rate"]
            bits = np.where(sp, np.array(SPECIAL_BITS, dtype=np.uint64)[rng.integers(0, len(SPECIAL_BITS), size=n)], bits)
        a = bits.astype(np.uint64).view(np.float64).reshape(L, case["N"]).copy()
        lay = case["layout"]
        if lay == "F":
            a = np.asfortranarray(a)
        elif lay == "strided":
            big = np.zeros((L * 2, case["N"] * 2), dtype=np.float64)
            big[1::2, ::2] = a
            a = big[1::2, ::2]
        elif lay == "readonly":
            a.setflags(write=False)
        elif lay == "row_strided":
            # two recordings multiplexed row by row in one buffer: each is contiguous along a row, the rows are two apart
            big = np.zeros((L * 2, case["N"]), dtype=np.float64)
            big[si % 2::2] = a
            big[(si + 1) % 2::2] = a[::-1]                 # (the other recording; copied, never computed: see `ambient`)
            a = big[si % 2::2]
        elif lay == "row_reversed":
            a = np.ascontiguousarray(a[::-1])[::-1]          # negative row stride
        if lay == "C" and case.get("array_kind") and not case.get("reuse_buffers"):
            a = buffers.as_kind(a, case["array_kind"])
        if lay == "C" and case.get("reuse_buffers"):
            a = buffers.reuse(f"C10.series.{si}", a)     # the same array object as in earlier cases, refilled in place
        out.append(a)
    if case.get("as_views") and case["layout"] == "C" and len(out) >= 2:
        # the caller cut one recording into pieces: the series are row-slice views of ONE owning array, handed over in
        # another order than they lie in memory
        order = [i for i in case["as_views"] if i < len(out)]
        order = order + [i for i in range(len(out)) if i not in order]
        mem = [out[i] for i in order]
        owner = np.vstack(mem)
        views, pos = {}, 0
        for i, a in zip(order, mem):
            views[i] = owner[pos:pos + len(a)]
            pos += len(a)
        out = [views[i] for i in range(len(out))]
    if case.get("narrow_first") and len(out) >= 2 and case["layout"] == "C":
        # mixed precision: the first series is stored as float32 / float16 (exactly representable values), the others as float64
        first = np.nan_to_num(out[0], nan=0.0, posinf=0.0, neginf=0.0)
        first = np.clip(np.round(first), -1000, 1000).astype(case["narrow_first"])
        out[0] = first
    return out


def expected_stack(a, W):
    T, N = a.shape
    rows = T - W + 1
    exp = np.empty((rows, N * W), dtype=np.uint64)
    bits = np.ascontiguousarray(a, dtype=np.float64).view(np.uint64)     # a narrower float series: its values, as doubles
    for i in range(rows):
        for j in range(W):
            exp[i, j * N:(j + 1) * N] = bits[i + j]
    return exp


def execute(case, t):
    dp = _dp()
    W, N = case["W"], case["N"]
    series = build_series(case)
    before = [np.ascontiguousarray(s, dtype=np.float64).view(np.uint64).copy() for s in series]
    if case.get("reuse_buffers") and not case.get("as_views") and not case.get("narrow_first") and all(s.flags.writeable for s in series):
        # earlier calls on the very same array objects: another window size, and other contents (refilled afterwards)
        saved = [s.copy() for s in series]
        try:
            w2 = W + 1 if all(len(s) >= W + 1 for s in series) else max(1, W - 1)
            dp.stack_training_data_multiple_series(list(series), w2)
            dp.stack_training_data(series[0], w2)
            for s in series:
                s[...] = 1.25
            dp.stack_training_data_multiple_series(list(series), W)
            dp.stack_training_data(series[0], W)
        finally:
            for s, s0 in zip(series, saved):
                s[...] = s0
        t.cls("same_arrays_stacked_before_with_other_W_and_contents")
    exps = []
    for si, s in enumerate(series):
        try:
            got = dp.stack_training_data(s, W)
        except Exception as e:
            raise Violation(f"stack_training_data raised {type(e).__name__}: {e} for T={s.shape[0]}, W={W}, N={N}")
        exp = expected_stack(s, W)
        if not isinstance(got, np.ndarray) or got.shape != exp.shape:
            raise Violation(f"stacked shape {getattr(got, 'shape', None)} != expected {exp.shape} (T={s.shape[0]}, W={W}, N={N})")
        if got.dtype != np.float64:
            raise Violation(f"stacked dtype {got.dtype} is not float64")
        gb = np.ascontiguousarray(got).view(np.uint64)
        if not np.array_equal(gb, exp):
            bad = np.argwhere(gb != exp)[0]
            raise Violation(f"stacked[{bad[0]},{bad[1]}] has bits {int(gb[bad[0], bad[1]]):#x}, expected {int(exp[bad[0], bad[1]]):#x} "
                            f"(series {si}, T={s.shape[0]}, W={W}, N={N})")
        exps.append(exp)
    try:
        joint = dp.stack_training_data_multiple_series(list(series), W)
    except Exception as e:
        raise Violation(f"stack_training_data_multiple_series raised {type(e).__name__}: {e}")
    exp_all = np.vstack(exps)
    if joint.shape != exp_all.shape or not np.array_equal(np.ascontiguousarray(joint).view(np.uint64), exp_all):
        raise Violation(f"multi-series stacking differs from the concatenation of the individual stackings "
                        f"(lens={case['lens']}, W={W}, N={N})")
    for s, b in zip(series, before):
        if not np.array_equal(np.ascontiguousarray(s, dtype=np.float64).view(np.uint64), b):
            raise Violation("stacking modified its input series")
    # split + pad round trip on a label list as long as the joint stack
    stacked_lens = [L - W + 1 for L in case["lens"]]
    lr = np.random.default_rng(case["labels_seed"])
    labels = [int(x) for x in lr.integers(0, 7, size=sum(stacked_lens))]
    labels_before = list(labels)
    try:
        parts = dp.split_joint_labels(labels, list(stacked_lens))
        padded = [dp.pad_missing_labels(p, W) for p in parts]
    except Exception as e:
        raise Violation(f"split/pad raised {type(e).__name__}: {e}")
    if labels != labels_before:
        raise Violation("split_joint_labels modified its input list")
    if len(padded) != len(case["lens"]):
        raise Violation(f"split returned {len(padded)} lists for {len(case['lens'])} series")
    front = (W - 1) // 2
    back = (W - 1) - front
    inner_all = []
    for L, p in zip(case["lens"], padded):
        if len(p) != L:
            raise Violation(f"padded label list has length {len(p)} for a series of length {L} (W={W})")
        if any(v != -1 for v in p[:front]) or any(v != -1 for v in p[len(p) - back:]):
            raise Violation(f"padding markers are not -1 at the first {front} / last {back} positions")
        inner_all.extend(p[front:len(p) - back])
    if inner_all != labels_before:
        raise Violation("concatenated inner parts of the split+padded lists differ from the input label list")
    t.cls(f"layout_{case['layout']}")
    if case.get("array_kind") and case["layout"] == "C" and not case.get("reuse_buffers"):
        t.cls(f"array_kind_{case['array_kind']}")
    t.cls(f"series_{len(series)}")
    if case.get("as_views") and case["layout"] == "C" and len(series) >= 2:
        t.cls("series_are_views_of_one_array")
    if case.get("narrow_first") and len(series) >= 2 and case["layout"] == "C":
        t.cls("first_series_narrower_dtype")
    if W == 1:
        t.cls("W=1")
    if any(L == W for L in case["lens"]):
        t.cls("some_T=W")
    if len(set(case["lens"])) > 1:
        t.cls("unequal_lengths")
    if case.get("explicit_bits"):
        t.cls("explicit_bits")
    if W >= 2 and any(L > W for L in case["lens"]):
        t.mark_nontrivial({"stacked_lens": stacked_lens})


SUBCHECKS = [
    SubCheck(name="stacking_bits_and_split_pad", strategy=stacking_case, execute=execute,
             ambient=("debug_logging", "fp_errors_raise", "warnings_error", "mp_env"),     # a pure copy: no arithmetic, nothing to warn about
             budget={"quick": 2400, "thorough": 64000}, shards={"quick": 4, "thorough": 16},
             modes=["jit", "pyopt"], min_nontrivial_fraction=0.5),
]
