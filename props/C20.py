"""C20 - failures surface as exceptions, never as a partial result; no worker left behind; the next call is unaffected."""
import multiprocessing
import os
import signal
import threading
import time

import numpy as np
from hypothesis import strategies as st

from harness import gen, e2e, faults
from harness.core import SubCheck, Violation, HarnessError
from props import common_e2e as ce
from props.C19 import _digest_any

PROPERTY = "C20"
LEVEL = "fault_enumeration"
RULE = ("Fault points are enumerated from clean traced runs: for each of a seeded list of small configurations (quick 24, "
        "thorough 120; both front ends; K<=3, <=3 rounds) a clean run records the covariance S_{r,k} of every optimiser task; then "
        "for EVERY (round r, cluster k) a substitute for the public optimiser entry point raises a chosen picklable exception in "
        "whichever worker receives exactly S_{r,k}, and for EVERY (phase, round) a failing substitute of the phase function "
        "raises in the parent; each under the single-process pool and under a 2-4 worker pool "
        "(CUPCAKE_ENABLE_MULTIPROCESSING). A Hypothesis sub-check samples further configurations, exception types and worker "
        "counts, plus the no-donor failure and both wrong-input-kind failures (list/tuple/generator vs 2-D array). Oracle: the "
        "call raises the injected type with the injected message (RuntimeError naming the donor shortage; TypeError naming the "
        "other entry point) and returns nothing; it returns within a watchdog of max(120 s, 200 x clean run); at the moment the "
        "exception reaches the caller multiprocessing.active_children() holds no process that was not there before; a "
        "following clean call returns bitwise the clean result. A shared counter proves the fault fired. Non-trivial = the "
        "fault fired in a round >= 1 or under a multi-worker pool; distinct by SHA-1 of (configuration, fault point)."
        ' Donor shortage also with a starved cluster of exactly one point.'
        " Process state (NumPy error handling, the library's environment switches, signal handlers, cwd, the library's logger, multiprocessing.Pool) is compared before and after every fault case.")
ASSUMPTIONS = ["faults are injected by substituting module attributes the library looks up at call time; workers inherit the substitute by fork",
               "only standard picklable exception types are injected (an exception that cannot be unpickled hangs multiprocessing itself)",
               "the harness controls which task fails, not the OS schedule of the other tasks"]

PHASES = {
    "repopulate": ("fast_ticc.cluster_maintenance", "repopulate_empty_clusters"),
    "statistics": ("fast_ticc.cluster_maintenance", "update_all_cluster_statistics"),
    "optimize": ("fast_ticc.graphical_lasso", "optimize_markov_random_fields"),
    "relabel": ("fast_ticc.cluster_label_assignment", "predict_cluster_labels"),
}


class Watchdog(BaseException):
    """Raised by the SIGALRM handler.  A BaseException so that neither the library nor the traced runner can mistake
    it for the run's own failure."""


_ARMED = [False]


def _alarm(signum, frame):
    if _ARMED[0]:
        raise Watchdog()


def _guarded(timeout, fn):
    """fn() under a wall-clock limit.  -> (value, timed_out).  The timer keeps firing every few seconds after the first
    expiry: a call that hangs usually hangs again in its own clean-up (closing and joining a pool whose result thread
    has died), and that has to be interrupted as well or the watchdog would only move the hang."""
    old = signal.signal(signal.SIGALRM, _alarm)
    _ARMED[0] = True
    signal.setitimer(signal.ITIMER_REAL, timeout, 3.0)
    try:
        try:
            return fn(), False
        except Watchdog:
            _ARMED[0] = False
            return None, True
    finally:
        _ARMED[0] = False
        signal.setitimer(signal.ITIMER_REAL, 0)
        signal.signal(signal.SIGALRM, old)


def plain_run(cfg, workers, timeout, t=None):
    """Run with the library's own pool.  -> (trace, new child processes at the moment of return, timed_out).
    A watchdog expiry is inconclusive once: the call is repeated, and only a second expiry is reported as timed_out."""
    tr, leftover, timed_out = _plain_run_once(cfg, workers, timeout)
    if timed_out:
        _reap(leftover or [None])
        if t is not None:
            t.cls("watchdog_expired_once_then_retried")
        tr, leftover, timed_out = _plain_run_once(cfg, workers, timeout)
    return tr, leftover, timed_out


def _plain_run_once(cfg, workers, timeout):
    before = set(p.pid for p in multiprocessing.active_children())
    env_saved = os.environ.get("CUPCAKE_ENABLE_MULTIPROCESSING")
    run_cfg = dict(cfg)
    if workers > 1:
        os.environ["CUPCAKE_ENABLE_MULTIPROCESSING"] = "1"
        run_cfg["num_processors"] = workers
    else:
        os.environ.pop("CUPCAKE_ENABLE_MULTIPROCESSING", None)
        run_cfg["num_processors"] = 1
    try:
        tr, timed_out = _guarded(timeout, lambda: e2e.run(run_cfg, sync_pool=False, record_admm=False))
        leftover = [p for p in multiprocessing.active_children() if p.pid not in before]
    finally:
        if env_saved is None:
            os.environ.pop("CUPCAKE_ENABLE_MULTIPROCESSING", None)
        else:
            os.environ["CUPCAKE_ENABLE_MULTIPROCESSING"] = env_saved
    return tr, leftover, timed_out


def _reap(procs):
    """Bring the harness process back to a healthy state after a leak was observed: shut down any pool object the failed
    call left behind (its maintenance thread would otherwise keep respawning workers), then the stray processes."""
    import gc
    import multiprocessing.pool
    if procs:
        for o in gc.get_objects():
            try:
                if isinstance(o, multiprocessing.pool.Pool) and not isinstance(o, e2e.SyncPool):
                    _guarded(20.0, lambda o=o: (o.terminate(), o.join()))
            except Exception:
                pass
        for p in multiprocessing.active_children():
            try:
                p.kill()
                p.join(2)
            except Exception:
                pass
    for p in procs:
        if p is None:
            continue
        try:
            p.terminate()
            p.join(2)
        except Exception:
            pass


_CLEAN_CACHE = {}


def clean_reference(cfg):
    """Clean traced run (synchronous pool, recording) -> per-round covariances, rounds, digest, wall time."""
    from harness.core import digest
    key = digest({k: v for k, v in cfg.items() if k != "fault"})
    if key in _CLEAN_CACHE:
        return _CLEAN_CACHE[key]
    t0 = time.time()
    tr = e2e.run(dict(cfg), sync_pool=True, record_admm=True)
    wall = time.time() - t0
    out = None
    if tr.ok:
        out = {"rounds": tr.end["rounds"], "S": [[c["S"] for c in q["admm"]] for q in tr.rounds],
               "digest": _digest_any(tr.result), "wall": wall,
               "repop_rounds": [r for r, q in enumerate(tr.rounds) if "repopulate" in q["phases"]]}
    if len(_CLEAN_CACHE) > 64:
        _CLEAN_CACHE.clear()
        _CLEAN_FAILURE.clear()
    _CLEAN_CACHE[key] = out
    if not tr.ok:
        _CLEAN_FAILURE[key] = (type(tr.exc).__name__, str(tr.exc))
    return out


_CLEAN_FAILURE = {}


def clean_failure(cfg):
    """(type name, message) of the error the configuration raises on its own (no fault, valid arguments), or None."""
    from harness.core import digest
    clean_reference(cfg)
    return _CLEAN_FAILURE.get(digest({k: v for k, v in cfg.items() if k != "fault"}))


def small_config(seed):
    rng = np.random.default_rng(seed)
    front = "joint" if seed % 3 == 2 else "single"
    N, W = int(rng.integers(1, 3)), int(rng.integers(1, 3))
    K = int(rng.integers(2, 4))
    lengths = [int(rng.integers(30, 50))] if front == "single" else [int(rng.integers(16, 28)) for _ in range(int(rng.integers(2, 4)))]
    return {"front": front, "N": N, "W": W, "K": K, "lengths": lengths, "regimes": int(rng.integers(1, K + 1)),
            "mean_spread": float(rng.choice([0.5, 2.0, 6.0])), "data_seed": int(rng.integers(0, 2 ** 31)),
            "np_seed": int(rng.integers(0, 2 ** 31)), "py_seed": int(rng.integers(0, 2 ** 31)),
            "beta": float(rng.choice([0.5, 2.0, 10.0, 100.0])), "beta_form": "scalar", "lam": 0.11, "lam_form": "scalar",
            "limit": int(rng.choice([2, 3, 3])), "m": int(rng.integers(2, 5)), "biased": bool(rng.integers(0, 2)), "eps": 0,
            "num_processors": 1, "boundary_regime_flip": False}


def enumerate_fault_points(tier):
    nconf = 24 if tier == "quick" else 120
    excs = list(faults.EXC_TYPES)
    i = 0
    for c in range(nconf):
        cfg = small_config(1000 + c)
        ref = clean_reference(cfg)
        if ref is None:
            continue
        for workers in (1, 2 + c % 3):
            for r in range(ref["rounds"]):
                for k in range(cfg["K"]):
                    i += 1
                    yield dict(cfg, fault={"kind": "task", "round": r, "cluster": k, "exc": excs[i % len(excs)], "workers": workers})
                for ph in PHASES:
                    if ph == "repopulate" and r == 0:
                        continue
                    i += 1
                    yield dict(cfg, fault={"kind": "phase", "phase": ph, "round": r, "exc": excs[i % len(excs)], "workers": workers})


@st.composite
def sampled_fault(draw):
    cfg = draw(gen.e2e_config(front=("single", "joint"), max_N=2, max_W=2, max_K=3, t_range=(30, 60), limits=(1, 2, 3, 5),
                              lam_forms=("scalar",), beta_forms=("scalar",), betas=(0.5, 2.0, 10.0, 100.0)))
    cfg["prior_run_override"] = None        # faults are counted from the start of the call under test: no call before it
    kind = draw(st.sampled_from(["task", "task", "phase", "no_donor", "wrong_input", "bad_lambda"]))
    f = {"kind": kind, "round": draw(st.integers(0, 4)), "cluster": draw(st.integers(0, 2)), "phase": draw(st.sampled_from(list(PHASES))),
         "exc": draw(st.sampled_from(list(faults.EXC_TYPES))), "workers": draw(st.sampled_from([1, 1, 2, 3, 4])),
         "container": draw(st.sampled_from(["list", "tuple", "generator"]))}
    if kind == "no_donor":
        # either no cluster can ever donate, or the donors can pay for some but not all of the starved clusters
        T_stacked = sum(L - cfg["W"] + 1 for L in cfg["lengths"])
        cfg["m"] = draw(st.sampled_from([10 ** 6, max(2, T_stacked // 2 - 1), max(2, T_stacked // 2 - 1), max(2, T_stacked // 3)]))
        cfg["K"] = draw(st.sampled_from([3, 4, 4]))
        cfg["regimes"] = 1
        cfg["beta"] = 400.0
        cfg["limit"] = 5
        cfg["biased"] = True          # a one-member cluster must not stop the run earlier for the other documented reason
        cfg["outliers"] = 0
        if draw(st.integers(0, 2)) == 0:
            # the starved cluster holds exactly ONE point (an outlier keeps a cluster to itself), not zero
            cfg["outliers"] = 1
            cfg["K"] = draw(st.sampled_from([2, 2, 3]))
            cfg["beta"] = draw(st.sampled_from([0.0, 1.0]))
            cfg["quantise"] = None
            cfg["stray_pair"] = False
    cfg["fault"] = f
    return cfg


def case_limit(cfg):
    return int(cfg["limit"])


def _check_clean_after(cfg, ref, workers, timeout, what):
    tr, leftover, timed_out = plain_run(cfg, workers, timeout)
    _reap(leftover)
    if timed_out:
        raise Violation(f"the clean call following {what} did not return within {timeout:.0f} s")
    if not tr.ok:
        raise Violation(f"the clean call following {what} raised {type(tr.exc).__name__}: {str(tr.exc)[:120]}")
    if _digest_any(tr.result) != ref["digest"]:
        raise Violation(f"the clean call following {what} returned a different result than a clean call in a fresh state")


def _process_state():
    """What a failed call must leave as it found it, beyond the library's own caches: NumPy's floating-point error handling, the
    warnings filters, the environment, the signal handlers, the working directory, the logging configuration of the library."""
    import logging
    import warnings
    lg = logging.getLogger("fast_ticc")
    # (the warnings filter list is not compared: importing scipy / sklearn sub-modules on first use legitimately adds entries)
    return {"np.geterr()": dict(np.geterr()),
            "os.environ (library switches)": {k: v for k, v in os.environ.items() if k.startswith(("CUPCAKE", "FAST_TICC", "NUMBA_DISABLE", "PYTHONOPTIMIZE"))}, "SIGALRM/SIGINT/SIGTERM handlers": [repr(signal.getsignal(sg)) for sg in (signal.SIGALRM, signal.SIGINT, signal.SIGTERM)],
            "os.getcwd()": os.getcwd(), "fast_ticc logger": (lg.level, lg.propagate, len(lg.handlers), lg.disabled),
            "multiprocessing.Pool": repr(multiprocessing.Pool)}


def execute(case, t):
    before = _process_state()
    _execute(case, t)
    after = _process_state()
    for k in before:
        if before[k] != after[k]:
            raise Violation(f"after a failed call (and the clean call that followed it) the process is not as it was: {k} changed "
                            f"from {str(before[k])[:160]} to {str(after[k])[:160]}")


def _execute(case, t):
    cfg = {k: v for k, v in case.items() if k != "fault"}
    f = case["fault"]
    kind = f["kind"]
    workers = f["workers"]
    if kind == "wrong_input":
        return _wrong_input(cfg, f, t)
    if kind == "bad_lambda":
        return _bad_lambda(cfg, f, t)
    ref = clean_reference(cfg) if kind != "no_donor" else None
    if kind != "no_donor" and ref is None:
        t.discard("clean run does not complete")
    timeout = max(120.0, 200.0 * (ref["wall"] if ref else 1.0))
    t.cls(f"kind_{kind}")
    t.cls(f"workers_{workers}")
    if kind == "no_donor":
        tr, leftover, timed_out = plain_run(cfg, workers, timeout, t)
        n_left = len(leftover)
        _reap(leftover)
        if timed_out:
            raise Violation("call with min_cluster_size too large did not return within the watchdog")
        # reference: was there a round whose repopulation could not be paid for?  (sizes entering the step, capacity model of C08)
        from harness.oracle import repop_model as rm
        shortage = None
        for r in range(1, len(tr.rounds) + 1):
            prev = tr.rounds[r - 1]["phases"].get("relabel")      # the state that enters round r's repopulation
            if prev is None:
                break
            sizes = [len(c["members"]) for c in prev["after"]["clusters"]]
            needy, cap, err = rm.expected_plan(sizes, cfg["m"], None)
            if needy and err:
                shortage = (r, sizes, cap)
                break
            if r < len(tr.rounds) and tr.rounds[r]["phases"].get("relabel") is None:
                break
        if shortage is not None and shortage[0] >= case_limit(cfg):
            shortage = None           # the loop ended before that round could start
        if tr.ok:
            if shortage is not None:
                raise Violation(f"the call returned a result although in round {shortage[0]} the clusters {shortage[1]} with "
                                f"min_cluster_size {cfg['m']} left more starved clusters than the donors could pay for (capacities {shortage[2]})")
            t.discard("no round ended with a donor shortage")
        if not isinstance(tr.exc, RuntimeError) or "donor" not in str(tr.exc).lower():
            if shortage is None and (isinstance(tr.exc, (AssertionError, ValueError)) or "not finite" in str(tr.exc)):
                t.discard(f"run failed for another documented reason before any donor shortage ({type(tr.exc).__name__})")
            raise Violation(f"donor shortage surfaced as {type(tr.exc).__name__}: {str(tr.exc)[:120]}, expected a RuntimeError naming the donor shortage")
        if n_left:
            raise Violation(f"{n_left} worker process(es) still alive when the donor-shortage error reached the caller")
        cfg2 = dict(cfg, m=3)
        ref2 = clean_reference(cfg2)
        if ref2 is not None:
            _check_clean_after(cfg2, ref2, workers, timeout, "a donor-shortage failure")
        t.cls("donor_shortage_total" if cfg["m"] >= 10 ** 6 else "donor_shortage_partial")
        t.mark_nontrivial({"error": str(tr.exc)[:80], "workers": workers})
        return
    r = f["round"] % ref["rounds"]
    message = f"injected fault at round {r}"
    if kind == "task":
        k = f["cluster"] % cfg["K"]
        target = ref["S"][r][k]
        # if another task of the run has bitwise the same covariance the first of them fails: still a single injected fault
        with faults.Installed(faults.failing_admm):
            fired = faults.arm_fault(target, f["exc"], message)
            tr, leftover, timed_out = plain_run(cfg, workers, timeout, t)
            n_fired = fired.value
        what = f"a failure of the optimisation task of cluster {k} in round {r} ({f['exc']}, {workers} worker(s))"
    else:
        ph = f["phase"]
        if ph == "repopulate":
            if r == 0:
                r = 1 if ref["rounds"] > 1 else None
            if r is None:
                t.discard("single-round run: repopulation is never attempted")
        import importlib
        mod = importlib.import_module(PHASES[ph][0])
        real = getattr(mod, PHASES[ph][1], None)
        if real is None:
            raise HarnessError(f"phase function {PHASES[ph]} not found")
        calls = {"n": 0, "fired": 0}
        target_call = r - 1 if ph == "repopulate" else r

        def failing(*a, **k):
            calls["n"] += 1
            if calls["n"] - 1 == target_call:
                calls["fired"] += 1
                raise faults.EXC_TYPES[f["exc"]](message)
            return real(*a, **k)
        setattr(mod, PHASES[ph][1], failing)
        try:
            tr, leftover, timed_out = plain_run(cfg, workers, timeout, t)
        finally:
            setattr(mod, PHASES[ph][1], real)
        n_fired = calls["fired"]
        what = f"a failure of phase '{ph}' in round {r} ({f['exc']}, {workers} worker(s))"
    n_left = len(leftover)
    _reap(leftover)
    if timed_out:
        raise Violation(f"the call did not return within {timeout:.0f} s, twice in a row, after {what}")
    if n_fired == 0:
        if tr.ok:
            t.discard("the targeted task/phase was never reached (fault did not fire)")
        t.discard(f"fault did not fire and the run raised {type(tr.exc).__name__}")
    if tr.ok:
        raise Violation(f"the call returned a result although {what} (the fault fired {n_fired} time(s))")
    exc = tr.exc
    if type(exc) is not faults.EXC_TYPES[f["exc"]]:
        raise Violation(f"{what} surfaced as {type(exc).__name__}: {str(exc)[:120]} instead of the original {f['exc']}")
    if not exc.args or exc.args[0] != message:
        raise Violation(f"{what}: the original error message was lost (got {exc.args!r})")
    if n_left:
        raise Violation(f"{n_left} worker process(es) still alive at the moment the exception reached the caller after {what}")
    _check_clean_after(cfg, ref, workers, timeout, what)
    t.cls(f"exc_{f['exc']}")
    if r >= 1:
        t.cls("fault_in_round>=1")
    if r >= 1 or workers > 1:
        t.mark_nontrivial({"fault": what, "rounds_in_clean_run": ref["rounds"]})


def _bad_lambda(cfg, f, t):
    """A sparsity weight that is neither a number nor an array: the optimiser's own error is raised inside a pool worker and must
    travel back to the caller like any other failure (no hang, no worker left, next call unaffected)."""
    import fast_ticc
    workers = f["workers"]
    bad = [None, "0.11", [[0.1]], (0.1,), {"lambda": 0.1}][(f["round"] + f["cluster"]) % 5]
    ref = clean_reference(cfg)
    timeout = max(120.0, 200.0 * (ref["wall"] if ref else 1.0))
    series = e2e.build_series(dict(cfg))

    def call():
        return _plain_call_with_lambda(cfg, workers, bad, timeout)
    tr, leftover, timed_out = call()
    if timed_out:
        _reap(leftover or [None])
        t.cls("watchdog_expired_once_then_retried")
        tr, leftover, timed_out = call()
    n_left = len(leftover)
    _reap(leftover or ([None] if timed_out else []))
    if timed_out:
        raise Violation(f"with sparsity_weight={bad!r} ({workers} worker(s)) the call did not return within {timeout:.0f} s, twice in a row")
    if tr.ok:
        raise Violation(f"a run with sparsity_weight={bad!r} returned a result")
    own = clean_failure(cfg) if ref is None else None
    if own is not None and (type(tr.exc).__name__, str(tr.exc)) == own:
        # the configuration fails on its own, in a phase that comes before the optimiser ever sees the sparsity weight (e.g. a
        # one-point cluster out of the initialisation): the property does not rank the two errors, the call raised, which is all it asks
        t.cls("bad_lambda_preempted_by_the_configurations_own_error")
    elif not isinstance(tr.exc, (ValueError, TypeError)):
        raise Violation(f"sparsity_weight={bad!r} surfaced as {type(tr.exc).__name__}: {str(tr.exc)[:120]}, expected the optimiser's ValueError/TypeError")
    if n_left:
        raise Violation(f"{n_left} worker process(es) still alive when the error for sparsity_weight={bad!r} reached the caller")
    if ref is not None:
        _check_clean_after(cfg, ref, workers, timeout, f"a failure caused by sparsity_weight={bad!r}")
    t.cls("kind_bad_lambda")
    t.cls(f"workers_{workers}")
    t.mark_nontrivial({"sparsity_weight": repr(bad), "workers": workers, "error": type(tr.exc).__name__})


def _plain_call_with_lambda(cfg, workers, lam, timeout):
    before = set(p.pid for p in multiprocessing.active_children())
    env_saved = os.environ.get("CUPCAKE_ENABLE_MULTIPROCESSING")
    run_cfg = dict(cfg, num_processors=max(1, workers))
    if workers > 1:
        os.environ["CUPCAKE_ENABLE_MULTIPROCESSING"] = "1"
    else:
        os.environ.pop("CUPCAKE_ENABLE_MULTIPROCESSING", None)
    try:
        tr, timed_out = _guarded(timeout, lambda: e2e.run(run_cfg, sync_pool=False, record_admm=False,
                                                          extra_kwargs={"sparsity_weight": lam}))
    finally:
        if env_saved is None:
            os.environ.pop("CUPCAKE_ENABLE_MULTIPROCESSING", None)
        else:
            os.environ["CUPCAKE_ENABLE_MULTIPROCESSING"] = env_saved
    leftover = [p for p in multiprocessing.active_children() if p.pid not in before]
    return tr, leftover, timed_out


def _wrong_input(cfg, f, t):
    import contextlib
    import io
    import fast_ticc
    series = e2e.build_series(dict(cfg))
    kw = dict(window_size=cfg["W"], num_clusters=cfg["K"], iteration_limit=2, min_cluster_size=cfg["m"])
    before = set(p.pid for p in multiprocessing.active_children())
    np.random.seed(1)
    try:
        with contextlib.redirect_stdout(io.StringIO()):
            if cfg["front"] == "single":
                # the joint front end given a single 2-D array
                fast_ticc.ticc_joint_labels(series[0], **kw)
                other = "ticc_labels"
            else:
                arg = {"list": list(series), "tuple": tuple(series), "generator": (s for s in series)}[f["container"]]
                fast_ticc.ticc_labels(arg, **kw)
                other = "ticc_joint_labels"
    except TypeError as e:
        other = "ticc_labels" if cfg["front"] == "single" else "ticc_joint_labels"
        if other not in str(e):
            raise Violation(f"TypeError for the wrong input kind does not name the right entry point ({other}): {str(e)[:160]}")
    except Exception as e:
        raise Violation(f"wrong input kind surfaced as {type(e).__name__}: {str(e)[:160]}, expected a TypeError naming the other entry point")
    else:
        raise Violation("a front end accepted the other front end's kind of input and returned a result")
    left = [p for p in multiprocessing.active_children() if p.pid not in before]
    _reap(left)
    if left:
        raise Violation(f"{len(left)} worker process(es) alive after a wrong-input-kind failure")
    t.cls("kind_wrong_input")
    t.cls(f"wrong_input_{cfg['front']}_{f['container'] if cfg['front'] != 'single' else 'array'}")
    t.mark_nontrivial({"front": cfg["front"], "container": f["container"]})


SUBCHECKS = [
    SubCheck(name="enumerated_fault_points", enumerate=enumerate_fault_points, execute=execute, exhaustive=False,
             budget={"quick": 1, "thorough": 1}, shards={"quick": 16, "thorough": 16},
             modes={"quick": ["nojit"], "thorough": ["nojit", "jit"]}, min_nontrivial_fraction=0.3),
    SubCheck(name="sampled_faults_and_input_kinds", strategy=sampled_fault, execute=execute,
             budget={"quick": 96, "thorough": 3000}, shards={"quick": 16, "thorough": 16},
             modes={"quick": ["nojit"], "thorough": ["nojit", "jit"]}, shrink={"quick": False, "thorough": False}),
]
