"""C09 - main loop: bounded, stops only at a fixed point, returns what it scored."""
import numpy as np

from harness import gen
from harness.core import SubCheck, Violation, E2E_MODES
from harness.oracle import gaussian_ref
from props import common_e2e as ce
from props.C01 import check_labelling

PROPERTY = "C09"
LEVEL = "exploration"
RULE = ("Traced runs of both front ends from the shared end-to-end generator (N<=3, W<=4, K in 2..4, 30..120 rows, 1..K "
        "regimes, beta in {0,.5,2,10,50,400}, m in 2..6, iteration_limit in {1,2,3,5,30}, scalar/matrix lambda, biased flag). "
        "Oracle on the hook trace: 1 <= rounds <= limit; the event sequence of every round is (repopulate iff round>0) -> "
        "statistics -> optimise -> labelling inputs -> relabel; every phase's input state equals the previous phase's output; "
        "reason=converged iff the last two relabel outputs are equal (and no earlier consecutive pair was equal), reason=limit "
        "only with rounds=limit; repopulation changes the labelling only if a cluster had fewer than 2 points; returned "
        "labels, cost and MRFs are bitwise those of the last relabel output; each round's MRFs equal a harness re-solve of that "
        "round's covariances (first and last round, rtol 1e-9); the table handed to the last labelling step equals minus the "
        "reference log-densities of the returned model, and the returned labelling is a minimum for that table and the "
        "switching cost handed to the step (exact DP oracle of C01, class-F slack), with the reported cost its exact cost. "
        "Non-trivial = rounds >= 2; sub-classes converged / limit / with repopulation / limit=1; distinct by SHA-1 of the case.")
ASSUMPTIONS = ["per-phase states, exit reason and labelling inputs are observed through the guarded hooks",
               "optimality is judged for the switching cost that reached the labelling step; whether that is the right cost for joint runs is C07's question"]


def execute(case, t):
    tr = ce.traced_run(case, t, sync_pool=True, record_admm=False)
    end = tr.end
    limit = case["limit"]
    R = end["rounds"]
    if not 1 <= R <= limit:
        raise Violation(f"run performed {R} rounds with iteration_limit={limit}")
    if len(tr.rounds) != R:
        raise Violation(f"hook saw {len(tr.rounds)} rounds but the loop reports {R}")
    # ---- event order
    seq = [(e, n, r) for (e, n, r) in tr.sequence if e in ("phase", "relabel_inputs")]
    expect = []
    for r in range(R):
        if r > 0:
            expect.append(("phase", "repopulate", r))
        expect += [("phase", "statistics", r), ("phase", "optimize", r), ("relabel_inputs", None, None), ("phase", "relabel", r)]
    if seq != expect:
        for i, (a, b) in enumerate(zip(seq, expect)):
            if a != b:
                raise Violation(f"phase order broken at step {i}: saw {a}, expected {b}")
        raise Violation(f"phase sequence has {len(seq)} steps, expected {len(expect)}")
    # ---- state chaining
    prev = tr.begin["initial"]
    prev_name = "initial labelling"
    from harness.e2e import states_equal
    for r, q in enumerate(tr.rounds):
        for name in (["repopulate"] if r > 0 else []) + ["statistics", "optimize", "relabel"]:
            ph = q["phases"][name]
            d = states_equal(prev, ph["before"])
            if d is not None:
                raise Violation(f"round {r}: input of '{name}' differs from the output of '{prev_name}' in {d}")
            prev, prev_name = ph["after"], f"{name} (round {r})"
        st_, op_, rl_ = q["phases"]["statistics"], q["phases"]["optimize"], q["phases"]["relabel"]
        if st_["after"]["labels"] != st_["before"]["labels"] or op_["after"]["labels"] != op_["before"]["labels"]:
            raise Violation(f"round {r}: statistics/optimise changed the labelling")
        if r > 0:
            rp = q["phases"]["repopulate"]
            needy = any(len(c["members"]) < 2 for c in rp["before"]["clusters"])
            if not needy and rp["after"]["labels"] != rp["before"]["labels"]:
                raise Violation(f"round {r}: repopulation changed the labelling although every cluster had >= 2 points")
    # ---- stopping rule
    outs = [q["phases"]["relabel"]["after"]["labels"] for q in tr.rounds]
    for r in range(1, R):
        if outs[r] == outs[r - 1] and r != R - 1:
            raise Violation(f"rounds {r - 1} and {r} produced identical labellings but the loop went on to round {r + 1}")
    last_equal = R >= 2 and outs[-1] == outs[-2]
    if end["reason"] == "converged" and not last_equal:
        raise Violation(f"loop stopped early after {R} rounds although the last two labellings differ")
    if end["reason"] == "limit":
        if R != limit:
            raise Violation(f"loop stopped after {R} rounds without convergence, iteration_limit={limit}")
        if last_equal and False:
            pass
    if end["reason"] not in ("converged", "limit"):
        raise Violation(f"unknown exit reason {end['reason']!r}")
    # ---- returns what it scored
    last = tr.rounds[-1]["phases"]["relabel"]["after"]
    if states_equal(last, end["model"]) is not None:
        raise Violation(f"final model differs from the last relabel output in {states_equal(last, end['model'])}")
    res = tr.result
    inner = [v for v in ce.flat_labels(res, case["front"]) if v >= 0]
    if inner != last["labels"]:
        raise Violation("returned labels are not those of the last round")
    if float(res.label_assignment_cost) != float(last["cost"]):
        raise Violation(f"returned cost {res.label_assignment_cost!r} is not the last round's cost {last['cost']!r}")
    for k, m in enumerate(res.markov_random_fields):
        if not np.array_equal(np.asarray(m), last["clusters"][k]["train_inverse"], equal_nan=True):
            raise Violation(f"returned MRF {k} is not the one fitted (and scored) in the last round")
    # ---- each round's MRFs are a deterministic function of that round's covariances
    from fast_ticc import admm, matrix_compression
    W, N = case["W"], case["N"]
    for r in sorted({0, R - 1}):
        st_after = tr.rounds[r]["phases"]["statistics"]["after"]
        op_after = tr.rounds[r]["phases"]["optimize"]["after"]
        for k in range(case["K"]):
            S = st_after["clusters"][k]["empirical_covariance"]
            th = matrix_compression.reinflate_matrix(admm.admm_optimize_theta(S, tr.lam, W, N).theta)
            eps = case.get("eps", 0)
            if eps:
                th = np.where(np.abs(th) < eps, 0.0, th)
            got = op_after["clusters"][k]["train_inverse"]
            if got is None or got.shape != th.shape or not np.allclose(got, th, rtol=1e-9, atol=1e-12):
                raise Violation(f"round {r}, cluster {k}: stored MRF is not the optimiser's answer for that round's covariance")
    # ---- the returned labelling is a minimum for the returned model
    ri = tr.rounds[-1]["relabel_inputs"]
    stacked = tr.begin["stacked"]
    table, kappas, _ = ce.reference_densities(end["model"], stacked)
    if table is None:
        t.discard("final model has a non-PD MRF (C03's business)")
    cost = np.asarray(ri["cost"])
    nw = stacked.shape[1]
    for k in range(table.shape[1]):
        tol = gaussian_ref.tolerance(table[:, k], nw, kappas[k])
        if np.any(np.abs(-cost[:, k] - table[:, k]) > tol):
            raise Violation(f"the table scored in the last round is not minus the log-density under the returned model (cluster {k})")
    check_labelling(cost, ri["beta"], last["labels"], last["cost"], "F", t, who="last round")
    ce.classify(tr, t)
    if any(outs[r] == outs[r - 2] and outs[r] != outs[r - 1] for r in range(2, R)):
        t.cls("labelling_returns_to_the_one_two_rounds_earlier")
    if len(last["labels"]) > 4096:
        t.cls("more_than_4096_stacked_rows")
    if limit == 1:
        t.cls("limit=1")
    if R >= 2:
        t.mark_nontrivial(ce.brief_result(tr))


SUBCHECKS = [
    SubCheck(name="loop_trace_invariants_long_series", strategy=gen.e2e_long_config, execute=execute,
             budget={"quick": 15, "thorough": 300}, shards={"quick": 3, "thorough": 16}, modes=E2E_MODES),
    SubCheck(name="loop_trace_invariants_tiny_cluster_large_min_size", strategy=gen.e2e_tiny_cluster_large_m_config, execute=execute,
             budget={"quick": 48, "thorough": 2000}, shards={"quick": 8, "thorough": 16}, modes=E2E_MODES),
    SubCheck(name="loop_trace_invariants_oscillating_runs", strategy=gen.e2e_oscillating_config, execute=execute,
             budget={"quick": 160, "thorough": 6000}, shards={"quick": 16, "thorough": 16}, modes=E2E_MODES),
    SubCheck(name="loop_trace_invariants", strategy=lambda: gen.e2e_config(betas=(0.0, 0.5, 2.0, 10.0, 50.0, 400.0), scales=True, scale_prob=0.25,
                                                                           offsets=(0.0, 0.0, 0.0, 1e4), m_large=True), execute=execute,
             budget={"quick": 160, "thorough": 4000}, shards={"quick": 16, "thorough": 8}, modes=E2E_MODES,
             min_nontrivial_fraction=0.3),
]
