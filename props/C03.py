"""C03 - every MRF is a finite, symmetric, positive-definite precision matrix; covariance-floor semantics."""
import dataclasses
import math

import numpy as np
from hypothesis import strategies as st

from harness import gen, e2e
from harness.core import SubCheck, Violation, E2E_MODES
from harness.oracle import gaussian_ref
from props import common_e2e as ce

PROPERTY = "C03"
LEVEL = "exploration"
RULE = ("(a) Optimiser level: Hypothesis draws (N,W) with NW<=24, a PSD covariance built from per-sensor standard deviations "
        "10^-6..10^6 (mixed inside one matrix) and data of any rank (1 sample, duplicated samples, constant sensors, fewer "
        "samples than dimensions), lambda in {0, 0.11, 1}; the returned matrix must be finite, exactly symmetric, positive "
        "definite (Cholesky; exact rational LDL^T when Cholesky fails, so a badly conditioned but truly PD matrix cannot "
        "alarm) with a finite log-determinant. (b) Floor semantics: optimize_markov_random_fields on hand-built models with a "
        "synchronous recording pool, eps in {0, 1e-8..1} and, in a second pass, eps set equal to the magnitude of an entry of "
        "the Theta just produced; the stored MRF must equal Theta bit for bit where |Theta|>=eps and be 0 elsewhere. (c) End "
        "to end: runs with sensor scales 10^-6..10^6, clusters smaller than NW, duplicated rows and constant sensors; every MRF "
        "finite/symmetric/PD, every float field of the result and every emitted cost table finite. Non-trivial = condition "
        "number of S > 1e6 or rank(S) < NW or the floor removed at least one entry; distinct by SHA-1 of the case."
        " End to end with a requested floor (1e-4..0.2, both front ends, sometimes after the same run with another floor): every MRF stored by an optimise phase is the floor-filtered image of a matrix the optimiser returned in that round, judged by the caller's floor."
        ' Pinned optimiser cases with NW = 130, 150, 256.'
        ' Several floors per case coincide exactly with magnitudes the optimiser produced (neighbouring magnitudes included).')
ASSUMPTIONS = ["a run that raises does not complete and is outside clause (c) (counted as discarded)",
               "optimiser-level inputs are symmetric PSD matrices built as sample covariances of finite data"]


def make_cov(case):
    rng = np.random.default_rng(case["seed"])
    n = case["N"] * case["W"]
    ns = case["samples"]
    A = rng.normal(size=(ns, n))
    if case.get("duplicate") and ns >= 2:
        A[ns // 2:] = A[: ns - ns // 2]
    stds = np.array([10.0 ** e for e in case["log_std"]])
    stds = np.tile(stds, case["W"])[:n]
    A = A * stds
    for c in case.get("constant", []):
        if c < n:
            A[:, c] = 3.0 * stds[c]
    if ns == 1:
        S = np.zeros((n, n))
    else:
        S = np.atleast_2d(np.cov(A.T, bias=bool(case.get("biased", True))))
    return (S + S.T) / 2


@st.composite
def opt_case(draw):
    N = draw(st.integers(1, 6))
    W = draw(st.integers(1, max(1, min(8, 24 // N))))
    n = N * W
    spread = draw(st.sampled_from(["wide", "wide", "high", "low", "unit"]))
    rng_e = {"wide": (-6, 6), "high": (3, 6), "low": (-6, -3), "unit": (-1, 1)}[spread]
    return {"N": N, "W": W, "seed": draw(st.integers(0, 2 ** 32 - 1)),
            "samples": draw(st.one_of(st.integers(1, 3), st.integers(1, 2 * n + 2))),
            "log_std": [draw(st.floats(rng_e[0], rng_e[1])) for _ in range(N)],
            "duplicate": draw(st.booleans()), "constant": draw(st.lists(st.integers(0, n - 1), max_size=2)),
            "lam": draw(st.sampled_from([0.0, 0.11, 1.0])), "biased": draw(st.booleans())}


def check_mrf(theta, who):
    theta = np.asarray(theta)
    if theta.ndim != 2 or theta.shape[0] != theta.shape[1]:
        raise Violation(f"{who}: MRF has shape {theta.shape}")
    if not np.all(np.isfinite(theta)):
        raise Violation(f"{who}: MRF has non-finite entries")
    if not np.array_equal(theta, theta.T):
        raise Violation(f"{who}: MRF is not exactly symmetric (max asymmetry {np.max(np.abs(theta - theta.T)):.3g})")
    if not gaussian_ref.is_pd(theta):
        ev = np.linalg.eigvalsh(theta)
        raise Violation(f"{who}: MRF is not positive definite (eigenvalues from {ev[0]:.3g} to {ev[-1]:.3g})")
    sign, logdet = np.linalg.slogdet(theta)
    if not (sign > 0 and math.isfinite(logdet)):
        raise Violation(f"{who}: log-determinant of the MRF is not finite (sign {sign}, value {logdet})")


def execute_opt(case, t):
    from fast_ticc import admm, matrix_compression
    S = make_cov(case)
    n = case["N"] * case["W"]
    try:
        kw = {"max_iterations": case["max_iterations"]} if case.get("max_iterations") else {}
        res = admm.admm_optimize_theta(S, case["lam"], case["W"], case["N"], **kw)
    except Exception as e:
        raise Violation(f"optimiser raised {type(e).__name__}: {e} on a finite PSD covariance (N={case['N']}, W={case['W']}, "
                        f"diag from {np.min(np.diag(S)):.3g} to {np.max(np.diag(S)):.3g})")
    theta = matrix_compression.reinflate_matrix(res.theta)
    check_mrf(theta, f"optimiser (N={case['N']}, W={case['W']}, lambda={case['lam']}, variances {np.min(np.diag(S)):.3g}..{np.max(np.diag(S)):.3g})")
    ev = np.linalg.eigvalsh(S)
    rank_def = np.linalg.matrix_rank(S) < n
    cond = (ev[-1] / ev[0]) if ev[0] > 0 else math.inf
    if rank_def:
        t.cls("rank_deficient")
    if cond > 1e6:
        t.cls("cond>1e6")
    if np.max(np.diag(S)) > 1e6:
        t.cls("variance>1e6")
    if np.max(np.diag(S)) < 1e-6:
        t.cls("variance<1e-6")
    if rank_def or cond > 1e6:
        t.mark_nontrivial({"variances": [float(f"{v:.3g}") for v in np.diag(S)[:6]], "rank": int(np.linalg.matrix_rank(S)), "NW": n})


# ----------------------------------------------------------------------------- (b) floor semantics

@st.composite
def floor_case(draw):
    N = draw(st.integers(1, 3))
    W = draw(st.integers(1, 3))
    return {"N": N, "W": W, "K": draw(st.integers(1, 3)), "seed": draw(st.integers(0, 2 ** 32 - 1)),
            "eps": draw(st.sampled_from([0.0, 1e-8, 1e-4, 1e-2, 0.1, 1.0])), "pick": draw(st.integers(0, 10 ** 6)),
            "lam": draw(st.sampled_from([0.0, 0.11, 0.5])), "eps_form": draw(st.sampled_from(["float", "np.float64", "int_if_integral"])),
            "data_scale": draw(st.sampled_from([1.0, 1.0, 1e3, 1e6, 1e8, 1e-3]))}


def _fit(case, eps):
    import multiprocessing
    from fast_ticc import admm, graphical_lasso, matrix_compression
    from fast_ticc.containers import arguments, model_state
    rng = np.random.default_rng(case["seed"])
    N, W, K = case["N"], case["W"], case["K"]
    n = N * W
    data = rng.normal(size=(40, n)) * case.get("data_scale", 1.0)      # large variances: precision entries down to 1e-17 and below
    args = arguments.UserArguments(sparsity_weight=case["lam"], iteration_limit=1, label_switching_cost=1.0, min_cluster_size=2,
                                   min_meaningful_covariance=eps, num_clusters=K, num_processors=1, window_size=W, biased_covariance=False)
    ms = model_state.ModelState.empty_model(args, data)
    ms.point_labels = [i % K for i in range(40)]
    for k in range(K):
        pts = data[k::K] @ (np.eye(n) + 0.3 * rng.normal(size=(n, n)))
        ms.clusters[k].empirical_covariance = np.atleast_2d(np.cov(pts.T))
        ms.clusters[k].stacked_data_mean = pts.mean(axis=0)
    produced = []
    real = admm.admm_optimize_theta

    def rec(*a, **k):
        r = real(*a, **k)
        produced.append(matrix_compression.reinflate_matrix(np.array(r.theta, copy=True)))
        return r
    admm.admm_optimize_theta = rec
    try:
        out = graphical_lasso.optimize_markov_random_fields(ms, data, e2e.SyncPool())
    except np.linalg.LinAlgError:
        return produced, None          # the floor made an MRF singular and the library refused: nothing is returned
    finally:
        admm.admm_optimize_theta = real
    return produced, [np.array(c.train_inverse, copy=True) for c in out.clusters]


def _check_floor(produced, stored, eps, t):
    removed = 0
    for k, (th, st_) in enumerate(zip(produced, stored)):
        keep = np.abs(th) >= eps
        exp = np.where(keep, th, 0.0)
        if st_.shape != exp.shape or not np.array_equal(st_.view(np.uint64) if st_.dtype == np.float64 else st_, exp.view(np.uint64)):
            # -0.0 vs 0.0 for removed entries is not a difference the property cares about
            if st_.shape == exp.shape and np.array_equal(st_, exp) and np.array_equal(st_[keep].view(np.uint64), th[keep].view(np.uint64)):
                pass
            else:
                bad = np.argwhere(st_ != exp)
                i, j = bad[0] if len(bad) else (0, 0)
                raise Violation(f"floor eps={eps!r}: stored MRF entry ({i},{j}) of cluster {k} is {st_[i, j]!r}; the optimiser produced "
                                f"{th[i, j]!r} (|.| {'>=' if abs(th[i, j]) >= eps else '<'} eps)")
        inside = (np.abs(st_) > 0) & (np.abs(st_) < eps)
        if np.any(inside):
            raise Violation(f"floor eps={eps!r}: a stored entry has magnitude strictly between 0 and eps")
        removed += int(np.sum(~keep))
    return removed


def execute_floor(case, t):
    eps = case["eps"]
    produced, stored = _fit(case, 0.0)
    if _check_floor(produced, stored, 0.0, t):
        raise Violation("with no floor requested some entries were removed")
    mags = np.unique(np.abs(np.concatenate([p.ravel() for p in produced])))
    mags = mags[mags > 0]
    half = max(1, (len(mags) + 1) // 2)
    # floors that coincide exactly with the magnitude of an entry the optimiser produced (lower half of the magnitudes: keeps the
    # filtered matrix invertible more often); several per case, neighbours in magnitude included - entries that are equal up to
    # the solver's tolerance (repeats of one Toeplitz parameter) sit right next to each other there
    picks = sorted({(case["pick"] + d) % half for d in (0, 1, 2, half // 2, half - 1)})
    boundaries = [float(mags[i]) for i in picks]
    boundary = boundaries[0]
    total_removed = 0
    for e in [eps] + boundaries:
        ev = e
        if case["eps_form"] == "np.float64":
            ev = np.float64(e)
        elif case["eps_form"] == "int_if_integral" and float(e).is_integer():
            ev = int(e)
        produced2, stored2 = _fit(case, ev)
        if stored2 is None:
            t.cls("floor_made_mrf_singular_library_raised")
            continue
        for a, b in zip(produced, produced2):
            if not np.array_equal(a, b):
                raise Violation("the optimiser's output changed with the floor value (the floor must only filter the result)")
        total_removed += _check_floor(produced2, stored2, float(e), t)
    t.cls("eps=0" if eps == 0 else "eps>0")
    if total_removed:
        t.mark_nontrivial({"eps": eps, "boundary_eps": boundary, "removed_entries": total_removed})


# ----------------------------------------------------------------------------- (c) end to end

def _e2e_strategy():
    return gen.e2e_config(max_N=3, max_W=4, betas=(0.0, 2.0, 20.0, 200.0), limits=(1, 2, 3, 5), scales=True, allow_degenerate=True,
                          t_range=(20, 90))


def execute_e2e(case, t):
    tr = ce.traced_run(case, t, sync_pool=True, record_admm=False)
    res = tr.result
    for k, m in enumerate(res.markov_random_fields):
        check_mrf(m, f"returned MRF {k}")
    for r, q in enumerate(tr.rounds):
        for k, c in enumerate(q["phases"]["optimize"]["after"]["clusters"]):
            check_mrf(c["train_inverse"], f"round {r}, MRF {k} (scored against)")
        ct = np.asarray(q["relabel_inputs"]["cost"])
        if not np.all(np.isfinite(ct)):
            raise Violation(f"round {r}: the cost table handed to the labelling step has non-finite entries")
    eligible_ch = tr.end["reason"] == "converged" and all(len(c["members"]) > 0 for c in tr.end["model"]["clusters"])
    for f in dataclasses.fields(res):
        v = getattr(res, f.name)
        if f.name in ("point_labels", "markov_random_fields", "num_clusters", "window_size"):
            continue
        if f.name == "calinski_harabasz_index":
            continue        # a dispersion ratio, not a likelihood / cost / information criterion: with zero within-cluster
                            # dispersion (constant or duplicated data) its definition itself is infinite (C17 decides its value)
        arr = np.asarray(v, dtype=float)
        if not np.all(np.isfinite(arr)):
            raise Violation(f"result field {f.name} is not finite: {v!r}")
    ce.classify(tr, t)
    sizes = [len(c["members"]) for c in tr.rounds[0]["phases"]["statistics"]["after"]["clusters"]]
    nw = case["N"] * case["W"]
    small = any(0 < s < nw for s in sizes)
    if small:
        t.cls("cluster_smaller_than_NW")
    sc = case.get("sensor_scales") or [1.0]
    spread = max(sc) / min(sc)
    if spread >= 1e6:
        t.cls("scale_spread>=1e6")
    if case.get("constant_sensor") is not None:
        t.cls("constant_sensor")
    if case.get("duplicate_rows"):
        t.cls("duplicate_rows")
    if small or spread >= 1e3 or case.get("constant_sensor") is not None or case.get("duplicate_rows") or max(sc) >= 1e3 or min(sc) <= 1e-3:
        t.mark_nontrivial(dict(ce.brief_result(tr), sensor_scales=sc))


def _floor_e2e_strategy():
    return gen.e2e_config(front=("single", "joint"), max_N=3, max_W=3, max_K=3, betas=(0.0, 2.0, 20.0), limits=(1, 2, 3),
                          t_range=(30, 90), eps_values=(1e-4, 1e-3, 1e-2, 0.05, 0.2), lam_forms=("scalar", "const_matrix"))


def execute_floor_e2e(case, t):
    """The floor the CALLER requested (not whatever the run's own argument record says) against what the optimiser produced in
    each round: every MRF stored after an optimise phase is the floor-filtered image of a matrix the optimiser returned in that
    round, and the returned MRFs are those of the last round."""
    from fast_ticc import matrix_compression
    eps = float(case["eps"])
    tr = ce.traced_run(case, t, sync_pool=True, record_admm=True)
    removed = 0
    for r, q in enumerate(tr.rounds):
        produced = [matrix_compression.reinflate_matrix(np.array(c["theta"], copy=True)) for c in q["admm"] if "theta" in c]
        stored = [c["train_inverse"] for c in q["phases"]["optimize"]["after"]["clusters"]]
        before = [c["train_inverse"] for c in q["phases"]["optimize"]["before"]["clusters"]]
        for k, st_ in enumerate(stored):
            if st_ is None:
                continue
            st_ = np.asarray(st_)
            inside = (np.abs(st_) > 0) & (np.abs(st_) < eps)
            if np.any(inside):
                i, j = np.argwhere(inside)[0]
                raise Violation(f"round {r}, cluster {k}: floor eps={eps!r} was requested but the stored MRF has entry ({i},{j}) = {st_[i, j]!r}, "
                                f"of magnitude strictly between 0 and eps ({int(inside.sum())} such entries)")
            if before[k] is not None and np.array_equal(np.asarray(before[k]), st_):
                continue                      # not refitted in this round (e.g. an empty cluster keeps its matrix)
            ok = False
            for th in produced:
                if th.shape != st_.shape:
                    continue
                keep = np.abs(th) >= eps
                if np.array_equal(np.where(keep, th, 0.0), st_):
                    ok = True
                    removed += int(np.sum(~keep))
                    break
            if not ok:
                raise Violation(f"round {r}, cluster {k}: the stored MRF is not the floor-filtered (eps={eps!r}) image of any matrix the "
                                "optimiser produced in this round (an entry of magnitude >= eps differs from the optimiser's, or "
                                "entries were removed that should have stayed)")
    last = tr.rounds[tr.end["rounds"] - 1]["phases"]["optimize"]["after"]["clusters"]
    for k, m in enumerate(tr.result.markov_random_fields):
        if last[k]["train_inverse"] is not None and not np.array_equal(np.asarray(m), np.asarray(last[k]["train_inverse"])):
            raise Violation(f"returned MRF {k} is not the matrix stored by the last round's optimise phase")
    ce.classify(tr, t)
    t.cls(f"eps={eps:g}")
    if case.get("prior_run_override") and "eps" in case["prior_run_override"]:
        t.cls("after_a_run_with_another_floor")
    if removed:
        t.mark_nontrivial(dict(ce.brief_result(tr), eps=eps, removed_entries=removed))


def _pinned_opt():
    # matrices beyond 128 and 255 rows (a few solver steps are enough: every iterate the solver hands back is PD): index tables
    # held in a narrow integer type wrap there
    big = [{"N": 13, "W": 10, "seed": 4, "samples": 300, "log_std": [0.0] * 13, "duplicate": False, "constant": [], "lam": 0.11, "biased": False, "max_iterations": 3},
           {"N": 16, "W": 16, "seed": 5, "samples": 600, "log_std": [0.3] * 16, "duplicate": False, "constant": [], "lam": 0.5, "biased": True, "max_iterations": 2},
           {"N": 3, "W": 50, "seed": 6, "samples": 40, "log_std": [0.0, 1.0, -1.0], "duplicate": False, "constant": [], "lam": 0.11, "biased": False, "max_iterations": 3}]
    return big + [{"N": 2, "W": 1, "seed": 1, "samples": 30, "log_std": [0.7, 5.7], "duplicate": False, "constant": [], "lam": 0.11, "biased": False},
            {"N": 3, "W": 2, "seed": 2, "samples": 1, "log_std": [6.0, -6.0, 0.0], "duplicate": False, "constant": [], "lam": 0.0, "biased": True},
            {"N": 2, "W": 3, "seed": 3, "samples": 4, "log_std": [6.0, 6.0], "duplicate": True, "constant": [1], "lam": 1.0, "biased": False}]


def _wide_strategy():
    return gen.e2e_config(front=("single", "single", "joint"), max_N=6, max_W=10, max_K=3, t_range=(80, 200), limits=(1, 2, 3),
                          betas=(1.0, 10.0, 100.0), scales=True, lam_forms=("scalar",), beta_forms=("scalar",))


def _pinned_wide():
    base = {"front": "single", "N": 4, "W": 8, "K": 2, "lengths": [150], "regimes": 2, "mean_spread": 2.0, "data_seed": 3,
            "np_seed": 3, "py_seed": 3, "beta": 10.0, "beta_form": "scalar", "lam": 0.11, "lam_form": "scalar", "limit": 2,
            "m": 4, "biased": False, "eps": 0, "num_processors": 1, "boundary_regime_flip": False}
    return [dict(base, sensor_scales=[1e6] * 4), dict(base, N=6, W=5, lengths=[160], sensor_scales=[1e6] * 6, data_seed=6),
            dict(base, N=6, W=10, lengths=[200], sensor_scales=[1e5, 1e6, 1e5, 1e6, 1e5, 1e6], data_seed=5)]


SUBCHECKS = [
    SubCheck(name="optimiser_output_is_pd_precision", strategy=opt_case, execute=execute_opt, pinned=_pinned_opt,
             budget={"quick": 480, "thorough": 16000}, shards={"quick": 16, "thorough": 16}, modes=["jit"],
             min_nontrivial_fraction=0.3),
    SubCheck(name="covariance_floor_semantics", strategy=floor_case, execute=execute_floor,
             budget={"quick": 96, "thorough": 3000}, shards={"quick": 8, "thorough": 8}, modes=["jit"]),
    SubCheck(name="end_to_end_requested_floor", strategy=_floor_e2e_strategy, execute=execute_floor_e2e,
             budget={"quick": 96, "thorough": 2400}, shards={"quick": 16, "thorough": 8}, modes=E2E_MODES),
    SubCheck(name="end_to_end_wide_windows_large_scales", strategy=_wide_strategy, execute=execute_e2e, pinned=_pinned_wide,
             budget={"quick": 32, "thorough": 800}, shards={"quick": 16, "thorough": 16}, modes={"quick": ["nojit"], "thorough": ["nojit"]}),
    SubCheck(name="end_to_end_scales_and_degenerate_data", strategy=_e2e_strategy, execute=execute_e2e,
             budget={"quick": 128, "thorough": 3000}, shards={"quick": 16, "thorough": 8}, modes=E2E_MODES),
]
