"""C18 - equivalent parameter forms give identical results."""
import dataclasses

import numpy as np
from hypothesis import strategies as st

from harness import gen, e2e, buffers
from harness.core import SubCheck, Violation, E2E_MODES
from props import common_e2e as ce

PROPERTY = "C18"
LEVEL = "exploration"
RULE = ("A value v is drawn from integers, dyadic fractions and generic decimals and rendered in every form that represents it "
        "exactly: Python float, Python int (if integral), every NumPy real scalar type that holds v exactly (float16/32/64/"
        "longdouble, int8..uint64), and for the array-capable parameters an array filled with v (lambda: NW x NW, C or Fortran "
        "order, float64 or an exact narrower dtype; beta: length-T vector). (1) Optimiser entry point: the compressed Theta for "
        "every lambda form must equal, bit for bit, the one for the Python float (covariances are seed-expanded, NW<=12). "
        "(2) Labelling phase: predict_cluster_labels on a hand-built model with every beta form, JIT and interpreted. (3) End to "
        "end: ticc_labels with each form of lambda, beta and the covariance floor, same RNG seeds; every result field compared "
        "bitwise with the all-Python-float run. Non-trivial = at least 3 distinct forms compared and (for 1) NW>=2 with W>=2, so "
        "that classes have different occurrence counts; distinct by SHA-1 of the case."
        ' A separate family uses NW 32..40 (matrices of >= 1024 entries) with weights float32 cannot hold.'
        ' Floors also 12, 16, 100, 200, 2**-14, 2**-10; weight forms also under a requested floor.')
ASSUMPTIONS = ["'same numeric value' is enforced: a form is used only if converting v to it and back is exact",
               "bitwise comparison is between executions inside the same process and environment"]

INT_TYPES = [np.int8, np.int16, np.int32, np.int64, np.uint8, np.uint16, np.uint32, np.uint64]
FLOAT_TYPES = [np.float16, np.float32, np.float64, np.longdouble]

VALUES = [0.0, 1.0, 2.0, 3.0, 5.0, 40.0, 200.0, 0.5, 0.25, 0.125, 1.5, 0.11, 0.3, 0.7, 0.011, 2.2,
          # full-mantissa values that a narrower float type holds exactly: arithmetic carried out in that type would round differently
          float(np.float32(0.11)), float(np.float32(0.7)), float(np.float32(1.3)), float(np.float16(0.3)), float(np.float16(0.11))]


def scalar_forms(v):
    forms = [("float", float(v))]
    if float(v).is_integer():
        forms.append(("int", int(v)))
        for tp in INT_TYPES:
            if np.iinfo(tp).min <= int(v) <= np.iinfo(tp).max:
                forms.append((tp.__name__, tp(int(v))))
    for tp in FLOAT_TYPES:
        x = tp(v)
        if float(x) == float(v) and np.isfinite(float(x)):
            forms.append((tp.__name__, x))
    return forms


def matrix_forms(v, n):
    out = [("matrix_f64_C", np.full((n, n), float(v))), ("matrix_f64_F", np.asfortranarray(np.full((n, n), float(v))))]
    if float(np.float32(v)) == float(v):
        out.append(("matrix_f32", np.full((n, n), v, dtype=np.float32)))
        out.append(("matrix_f32_F", np.asfortranarray(np.full((n, n), v, dtype=np.float32))))
    if float(np.float16(v)) == float(v):
        out.append(("matrix_f16", np.full((n, n), v, dtype=np.float16)))
    if float(v).is_integer():
        out.append(("matrix_i64", np.full((n, n), int(v), dtype=np.int64)))
    return out


def vector_forms(v, T):
    out = [("vector_f64", np.full(T, float(v)))]
    if float(np.float32(v)) == float(v):
        out.append(("vector_f32", np.full(T, v, dtype=np.float32)))
    if float(v).is_integer():
        out.append(("vector_i64", np.full(T, int(v), dtype=np.int64)))
    return out


# ----------------------------------------------------------------------------- (1) optimiser entry point

@st.composite
def opt_case(draw):
    N = draw(st.integers(1, 4))
    W = draw(st.integers(1, max(1, min(6, 12 // N))))
    return {"N": N, "W": W, "seed": draw(st.integers(0, 2 ** 32 - 1)), "v": draw(st.sampled_from(VALUES)),
            "rho": draw(st.sampled_from([1.0, 1.0, 0.5, 3.0])), "callback": draw(st.sampled_from([False, False, True]))}


def execute_opt(case, t):
    from fast_ticc import admm
    N, W = case["N"], case["W"]
    n = N * W
    rng = np.random.default_rng(case["seed"])
    A = rng.normal(size=(3 * n + 2, n)) @ (np.eye(n) + 0.4 * rng.normal(size=(n, n)))
    S = np.atleast_2d(np.cov(A.T))
    v = case["v"]
    kw = {"rho": case["rho"]}
    if case.get("callback"):
        from props.C02 import balancing_callback
        kw["rho_update"] = balancing_callback           # a step-size rule that really changes rho during the solve
        t.cls("with_rho_update_callback")
    ref = admm.admm_optimize_theta(S, float(v), W, N, **kw).theta
    forms = scalar_forms(v)[1:] + matrix_forms(v, n)
    # one array object per shape that is refilled in place from case to case (parameter sweep): identity-keyed caches show here
    # a sweep over weights that refills one preallocated matrix: solve with another weight, refill in place, solve again
    buf = buffers.reuse("C18.lam", np.full((n, n), float(v)))
    other = 0.37 if v != 0.37 else 0.21
    buf.fill(other)
    admm.admm_optimize_theta(S, buf, W, N, **kw)
    buf.fill(float(v))
    got = admm.admm_optimize_theta(S, buf, W, N, **kw).theta
    if got.shape != ref.shape or not np.array_equal(got.view(np.uint64), ref.view(np.uint64)):
        raise Violation(f"sparsity weight {v} given as a matrix buffer that was refilled in place after a solve with weight {other} "
                        f"gives a different Theta than the Python float (max |diff| {float(np.max(np.abs(got - ref))):.3g}; N={N}, W={W})")
    t.cls("form_matrix_f64_refilled_buffer")
    for name, lam in forms:
        keep = lam.copy() if isinstance(lam, np.ndarray) else lam
        try:
            got = admm.admm_optimize_theta(S, lam, W, N, **kw).theta
        except Exception as e:
            raise Violation(f"sparsity weight {v} given as {name} raised {type(e).__name__}: {str(e)[:120]}; as a Python float it is accepted")
        if got.shape != ref.shape or not np.array_equal(got.view(np.uint64), ref.view(np.uint64)):
            d = float(np.max(np.abs(got - ref)))
            raise Violation(f"sparsity weight {v} given as {name} gives a different Theta than the Python float (max |diff| {d:.3g}; N={N}, W={W})")
        if isinstance(lam, np.ndarray) and not np.array_equal(lam, keep):
            raise Violation("optimiser modified its lambda matrix")
        t.cls(f"form_{name}")
    if len(forms) >= 3 and n >= 2 and W >= 2:
        t.mark_nontrivial({"v": v, "forms": [f[0] for f in forms]})


# ----------------------------------------------------------------------------- (2) labelling phase with every beta form

@st.composite
def relabel_case(draw):
    eq = draw(st.sampled_from([False, False, True]))
    return {"K": draw(st.integers(2, 4)) if not eq else draw(st.sampled_from([2, 2, 3])), "n": draw(st.integers(1, 4)), "T": draw(st.integers(5, 40)),
            "seed": draw(st.integers(0, 2 ** 32 - 1)),
            "v": draw(st.sampled_from(VALUES + [0.0, 0.0])) if not eq else draw(st.sampled_from([0.0, 0.0, 0.0, 0.125, 2.0])),
            "duplicate_cluster": draw(st.sampled_from([False, False, True])) and not eq,
            "equidistant_points": eq}


def _relabel(case, beta):
    from fast_ticc import cluster_label_assignment
    from fast_ticc.containers import arguments, model_state
    rng = np.random.default_rng(case["seed"])
    K, n, T = case["K"], case["n"], case["T"]
    data = rng.normal(size=(T, n)) + rng.integers(0, K, size=(T, 1)) * 1.5
    args = arguments.UserArguments(sparsity_weight=0.1, iteration_limit=1, label_switching_cost=beta, min_cluster_size=2,
                                   min_meaningful_covariance=0, num_clusters=K, num_processors=1, window_size=1, biased_covariance=False)
    ms = model_state.ModelState.empty_model(args, data)
    ms.point_labels = [i % K for i in range(T)]
    for k in range(K):
        B = rng.normal(size=(n, n))
        ms.clusters[k].train_inverse = B @ B.T + np.eye(n)
        ms.clusters[k].stacked_data_mean = rng.normal(size=n) + k * 1.5
    if case.get("equidistant_points"):
        # two clusters with the same precision and means 0 and 2 (all exact), points at 0, 2 and exactly half-way: the half-way
        # points are exactly equally cheap in both, the others are not -> exact ties after a strict preference
        ms.clusters[K - 1].train_inverse = ms.clusters[0].train_inverse.copy()
        ms.clusters[0].stacked_data_mean = np.zeros(n)
        ms.clusters[K - 1].stacked_data_mean = np.full(n, 2.0)
        pattern = rng.choice(np.array([0.0, 2.0, 1.0, 1.0, 2.0, 1.0]), size=T)
        data[:] = pattern[:, None]
    if case.get("duplicate_cluster"):
        # two clusters with the very same model: every point is exactly equally cheap in both (exact ties in the table)
        ms.clusters[K - 1].train_inverse = ms.clusters[0].train_inverse.copy()
        ms.clusters[K - 1].stacked_data_mean = ms.clusters[0].stacked_data_mean.copy()
    out = cluster_label_assignment.predict_cluster_labels(ms, data)
    return [int(x) for x in out.point_labels], float(out.label_assignment_cost)


def execute_relabel(case, t):
    v = case["v"]
    ref = _relabel(case, float(v))
    forms = scalar_forms(v)[1:] + vector_forms(v, case["T"])
    for name, beta in forms:
        try:
            got = _relabel(case, beta)
        except Exception as e:
            raise Violation(f"switching cost {v} given as {name} raised {type(e).__name__}: {str(e)[:160]}; as a Python float it is accepted")
        if got[0] != ref[0] or np.float64(got[1]).tobytes() != np.float64(ref[1]).tobytes():
            raise Violation(f"switching cost {v} given as {name} gives a different labelling/cost than the Python float")
        t.cls(f"form_{name}")
    if len(forms) >= 3:
        t.mark_nontrivial({"v": v, "forms": [f[0] for f in forms], "switches": ce.n_switches(ref[0])})


# ----------------------------------------------------------------------------- (2b) covariance floor at MRF reconstruction

@st.composite
def floor_case(draw):
    return {"N": draw(st.integers(1, 3)), "W": draw(st.integers(1, 3)), "K": draw(st.integers(1, 3)),
            "seed": draw(st.integers(0, 2 ** 32 - 1)),
            # also floors whose square, double or negative leaves the range of the narrow types that hold the floor itself exactly
            "v": draw(st.sampled_from([0.0, 1.0, 2.0, 3.0, 0.5, 0.125, 0.011, 0.11, 12.0, 16.0, 100.0, 200.0, 2.0 ** -14, 2.0 ** -10, 2.0 ** -8])),
            "data_scale": draw(st.sampled_from([0.05, 0.1, 0.3, 10.0, 30.0, 100.0]))}


def _fit_with_floor(case, eps):
    from fast_ticc import graphical_lasso
    from fast_ticc.containers import arguments, model_state
    rng = np.random.default_rng(case["seed"])
    N, W, K = case["N"], case["W"], case["K"]
    n = N * W
    data = rng.normal(size=(40, n)) * case["data_scale"]        # small variances -> large diagonal precision entries
    args = arguments.UserArguments(sparsity_weight=0.11, iteration_limit=1, label_switching_cost=1.0, min_cluster_size=2,
                                   min_meaningful_covariance=eps, num_clusters=K, num_processors=1, window_size=W, biased_covariance=False)
    ms = model_state.ModelState.empty_model(args, data)
    ms.point_labels = [i % K for i in range(40)]
    for k in range(K):
        pts = data[k::K] @ (np.eye(n) + 0.3 * rng.normal(size=(n, n)))
        ms.clusters[k].empirical_covariance = np.atleast_2d(np.cov(pts.T))
        ms.clusters[k].stacked_data_mean = pts.mean(axis=0)
    out = graphical_lasso.optimize_markov_random_fields(ms, data, e2e.SyncPool())
    return [np.array(c.train_inverse, copy=True) for c in out.clusters]


def execute_floor(case, t):
    v = case["v"]
    try:
        ref = _fit_with_floor(case, float(v))
    except np.linalg.LinAlgError:
        t.discard("the floor makes an MRF singular: the library refuses in every form")
    removed = sum(int(np.sum(m == 0.0)) for m in ref)
    forms = scalar_forms(v)[1:]
    for name, eps in forms:
        try:
            got = _fit_with_floor(case, eps)
        except Exception as e:
            raise Violation(f"covariance floor {v} given as {name} raised {type(e).__name__}: {str(e)[:120]}; as a Python float it is accepted")
        for k, (a, b) in enumerate(zip(ref, got)):
            if a.shape != b.shape or not np.array_equal(a, b) or not np.array_equal(a != 0, b != 0):
                raise Violation(f"covariance floor {v} given as {name} gives a different MRF than the Python float "
                                f"(cluster {k}: {int(np.sum(a == 0))} vs {int(np.sum(b == 0))} zero entries)")
        t.cls(f"form_{name}")
    if len(forms) >= 3 and removed and v > 0:
        t.mark_nontrivial({"v": v, "forms": [f[0] for f in forms], "entries_removed": removed})


# ----------------------------------------------------------------------------- (3) end to end

@st.composite
def e2e_case(draw):
    cfg = draw(gen.e2e_config(front=("single", "single", "joint"), max_N=2, max_W=3, max_K=3, t_range=(30, 70), limits=(1, 2, 3),
                              lam_forms=("scalar",), beta_forms=("scalar",), max_series=3))
    cfg["reuse_buffers"] = False
    cfg["prior_calls_on_same_arrays"] = False
    cfg["param"] = draw(st.sampled_from(["lam", "beta", "eps"]))
    cfg["v"] = draw(st.sampled_from(VALUES if cfg["param"] != "eps" else [0.0, 1.0, 0.5, 0.125, 0.011, 0.11]))
    cfg["form_pick"] = draw(st.integers(0, 10 ** 6))
    if cfg["param"] == "lam" and draw(st.booleans()):
        # the other hyper-parameters are not at their defaults while the weight changes form: a floor is requested as well
        cfg["eps"] = draw(st.sampled_from([1e-3, 0.01, 0.05, 0.2]))
        cfg["v"] = draw(st.sampled_from([0.0, 0.0, 0.0, 0.11, 0.5]))
        cfg["matrix_forms_only"] = True
    return cfg


@st.composite
def e2e_large_window_case(draw):
    """Sparsity-weight forms on runs whose matrices are large (NW from 32 to 40, i.e. >= 1024 entries): size thresholds at which
    a matrix-valued weight is treated differently from a scalar (packed, down-cast, sent to workers another way) live there."""
    N, W = draw(st.sampled_from([(4, 8), (8, 4), (6, 6), (5, 7), (2, 16), (3, 11), (1, 33), (10, 4), (4, 10)]))
    return {"front": draw(st.sampled_from(["single", "single", "joint"])), "N": N, "W": W, "K": 2,
            "lengths": [draw(st.integers(W + 50, W + 90))] if True else None, "regimes": 2, "mean_spread": 2.0,
            "data_seed": draw(st.integers(0, 2 ** 31 - 1)), "np_seed": draw(st.integers(0, 2 ** 31 - 1)),
            "py_seed": draw(st.integers(0, 2 ** 31 - 1)), "beta": draw(st.sampled_from([1.0, 20.0])), "beta_form": "scalar",
            "lam": 0.11, "lam_form": "scalar", "limit": draw(st.sampled_from([1, 2])), "m": 3, "biased": draw(st.booleans()),
            "eps": 0, "num_processors": 1, "boundary_regime_flip": False,
            "param": "lam", "v": draw(st.sampled_from([0.11, 0.3, 1.0 / 3.0, 0.011, 0.7])),
            "form_pick": draw(st.integers(0, 10 ** 6)), "matrix_forms_only": True}


def _digest(res):
    out = {}
    for f in dataclasses.fields(res):
        v = getattr(res, f.name)
        if f.name == "markov_random_fields":
            out[f.name] = [np.ascontiguousarray(m, dtype=np.float64).tobytes() for m in v]
        elif f.name == "point_labels":
            out[f.name] = [[int(x) for x in lst] for lst in v] if (len(v) and isinstance(v[0], (list, tuple))) else [int(x) for x in v]
        else:
            out[f.name] = np.asarray(v, dtype=np.float64).tobytes()
    return out


def execute_e2e(case, t):
    v = case["v"]
    base = dict(case)
    param = case["param"]
    nw = case["N"] * case["W"]
    T = sum(L - case["W"] + 1 for L in case["lengths"])
    if param == "lam":
        base["lam"] = v
        forms = scalar_forms(v)[1:] + matrix_forms(v, nw)
        if case.get("matrix_forms_only"):
            forms = matrix_forms(v, nw)
        key = "sparsity_weight"
    elif param == "beta":
        base["beta"] = v
        forms = scalar_forms(v)[1:] + vector_forms(v, T)
        key = "label_switching_cost"
    else:
        base["eps"] = v
        forms = scalar_forms(v)[1:]
        key = "min_meaningful_covariance"
    ref = e2e.run(base, sync_pool=True, record_admm=False)
    if not ref.ok:
        t.discard(f"reference run raised {type(ref.exc).__name__}")
    # a few forms per case (each is a full run)
    k0 = case["form_pick"] % len(forms)
    chosen = [forms[(k0 + i) % len(forms)] for i in range(min(3, len(forms)))]
    dref = _digest(ref.result)
    for name, val in chosen:
        keep = val.copy() if isinstance(val, np.ndarray) else val
        tr = e2e.run(base, sync_pool=True, record_admm=False, extra_kwargs={key: val})
        if not tr.ok:
            raise Violation(f"{key}={v} given as {name}: run raised {type(tr.exc).__name__}: {str(tr.exc)[:160]}; as a Python float it completes")
        d = _digest(tr.result)
        for fld in dref:
            if d[fld] != dref[fld]:
                raise Violation(f"{key}={v} given as {name}: result field {fld} differs from the run with a Python float")
        if isinstance(val, np.ndarray) and not (np.array_equal(val, keep) and val.dtype == keep.dtype):
            raise Violation(f"the run modified the caller's {key} array")
        t.cls(f"{param}_as_{name}")
    t.cls(f"front_{case['front']}")
    if len(chosen) >= 2:
        t.mark_nontrivial({"param": param, "v": v, "forms": [c[0] for c in chosen], **ce.brief_result(ref)})


SUBCHECKS = [
    SubCheck(name="optimiser_lambda_forms", strategy=opt_case, execute=execute_opt,
             budget={"quick": 160, "thorough": 6000}, shards={"quick": 8, "thorough": 16}, modes=["jit"], min_nontrivial_fraction=0.2),
    SubCheck(name="labelling_phase_beta_forms", strategy=relabel_case, execute=execute_relabel,
             budget={"quick": 120, "thorough": 6000}, shards={"quick": 2, "thorough": 8}, modes=["jit", "nojit"]),
    SubCheck(name="covariance_floor_forms", strategy=floor_case, execute=execute_floor,
             budget={"quick": 96, "thorough": 6000}, shards={"quick": 8, "thorough": 8}, modes=["jit"]),
    SubCheck(name="end_to_end_forms_large_windows", strategy=e2e_large_window_case, execute=execute_e2e,
             budget={"quick": 12, "thorough": 240}, shards={"quick": 3, "thorough": 16}, modes={"quick": ["jit"], "thorough": ["jit"]},
             shrink={"quick": False, "thorough": False}),
    SubCheck(name="end_to_end_forms", strategy=e2e_case, execute=execute_e2e,
             budget={"quick": 96, "thorough": 2000}, shards={"quick": 16, "thorough": 8}, modes=E2E_MODES),
]
