"""./check <id> quick|thorough [--seed N]      ./check <id> --replay <file>

Parent: fans a property's sub-checks out over (mode x shard) child processes, merges what they
measured, writes evidence/<id>.json, prints VIOLATION / KNOWN-FINDING lines, sets the exit code
(0 held, 1 violation, 2 machinery fault or inconclusive).

Child (--child): runs one sub-check shard in one execution mode.
"""
import os
import sys

if os.environ.get("VERIF_MODE") == "nonumba":
    sys.modules["numba"] = None          # `import numba` now raises ImportError -> NUMBA_AVAILABLE False

import argparse
import importlib
import json
import math
import subprocess
import tempfile
import time
import traceback

from harness import core, ambient
from harness.core import Violation, Discard, HarnessError, Tally, enc, dec, digest, eprint

MODES_ENV = {
    "jit": {},
    "nojit": {"NUMBA_DISABLE_JIT": "1"},
    "nonumba": {"VERIF_MODE": "nonumba"},
    # the interpreter started with -O (assert statements compiled away, __debug__ False); interpreted kernels
    "pyopt": {"PYTHONOPTIMIZE": "1", "NUMBA_DISABLE_JIT": "1"},
}


def load_property(pid):
    try:
        return importlib.import_module(f"props.{pid}")
    except ModuleNotFoundError as e:
        if e.name == f"props.{pid}":
            raise HarnessError(f"no check module for property {pid}")
        raise


def find_sub(mod, name):
    for sc in mod.SUBCHECKS:
        if sc.name == name:
            return sc
    raise HarnessError(f"{mod.PROPERTY}: no sub-check named {name}")


# ============================================================================= child

_CASELOG = os.environ.get("VERIF_CASELOG")


def _caselog(case, tally, before, outcome):
    new = sorted(k for k, v in tally.classes.items() if v != before.get(k, 0))
    with open(_CASELOG + f".{os.getpid()}", "a") as f:
        f.write(json.dumps({"digest": digest(case), "outcome": outcome, "classes": new, "case": core.brief(case)}) + "\n")


class _Fail:
    def __init__(self):
        self.case = None
        self.violation = None
        self.error = None
        self.history = []        # the last cases executed before (and including) the first failure, in order
        self.first = None        # (case, violation) of the first failure


def _run_one(sc, case, tally, fail):
    """Run execute on one case.  Returns normally on pass/discard/known; raises Violation on failure."""
    tally.begin(case)
    if fail.error is not None:
        return
    if not tally.frozen:
        fail.history.append(case)
        if len(fail.history) > 64:
            del fail.history[0]
    try:
        if _CASELOG:
            before = dict(tally.classes)
        ambient.execute(sc, case, tally)
        if _CASELOG:
            _caselog(case, tally, before, "ok")
    except Discard as d:
        if _CASELOG:
            _caselog(case, tally, before, "discard:" + d.reason)
        return
    except Violation as v:
        fail.case, fail.violation = case, v
        if fail.first is None:
            fail.first = (case, v)           # before any shrinking: the only failure whose in-process history is known exactly
        tally.frozen = True
        raise
    except Exception as e:  # machinery fault or unclassified library exception: never a VIOLATION by itself
        fail.error = "".join(traceback.format_exception(type(e), e, e.__traceback__))[-6000:]
        fail.case = case
        tally.frozen = True
        raise


def child_main(a):
    t0 = time.time()
    out = {"sub": a.sub, "mode": a.mode, "shard": a.shard, "violation": None, "error": None, "n_planned": 0}
    tally = Tally()
    fail = _Fail()
    try:
        mod = load_property(a.property)
        sc = find_sub(mod, a.sub)
        open_, _ = core.load_known_findings()
        tally.open_keys = set(open_.get(mod.PROPERTY, {}).keys())
        shard_i, shard_n = [int(x) for x in a.shard.split("/")]
        if sc.setup:
            sc.setup()
        # 1. pinned regression cases (always; shard 0 only)
        if sc.pinned and shard_i == 0:
            for case in sc.pinned():
                try:
                    _run_one(sc, case, tally, fail)
                    tally.cls("pinned")
                except Exception:
                    break
        if fail.violation is None and fail.error is None:
            if sc.enumerate is not None:
                for i, case in enumerate(sc.enumerate(a.tier)):
                    if i % shard_n != shard_i:
                        continue
                    out["n_planned"] += 1
                    try:
                        _run_one(sc, case, tally, fail)
                        # every seventh enumerated case is executed a second time under an ambient process state
                        if sc.ambient and i % 7 == 3 and isinstance(case, dict):
                            _run_one(sc, ambient.tag(case, ambient.for_index(sc.ambient, i // 7)), tally, fail)
                    except Violation:
                        break
                    except Exception:
                        break
            elif sc.stateful:
                _run_stateful(sc, a, tally, fail, shard_i, shard_n, out)
            else:
                _run_hypothesis(sc, a, tally, fail, shard_i, shard_n, out)
    except HarnessError as e:
        fail.error = f"HarnessError: {e}"
    except Exception as e:
        fail.error = "".join(traceback.format_exception(type(e), e, e.__traceback__))[-6000:]
    if fail.error is None and fail.violation is not None and not a.no_confirm:
        _confirm(a, fail)
    if fail.error is not None:
        out["error"] = fail.error
        if fail.case is not None:
            try:
                out["error_case"] = enc(fail.case)
            except Exception:
                pass
    elif fail.violation is not None:
        out["violation"] = {"message": fail.violation.message, "detail": core.brief(fail.violation.detail),
                            "case": enc(fail.case)}
    out["tally"] = tally.to_json()
    out["wall_s"] = time.time() - t0
    with open(a.out, "w") as f:
        json.dump(out, f)
        f.flush()
        os.fsync(f.fileno())
    sys.stdout.flush()
    sys.stderr.flush()
    os._exit(0)        # skip atexit handlers: a leaked worker pool in the code under test must not be able to hang the child


def _confirm(a, fail):
    """Re-execute the failing case in a fresh process: alone, then as the last of the preceding cases of this child
    (growing suffixes), so that a failure that needs earlier calls in the same process becomes a reproducible replay
    instead of an unexplained flake."""
    import tempfile
    pid = a.property

    def reproduces(case_enc):
        fd, path = tempfile.mkstemp(prefix="confirm-", suffix=".json", dir=os.path.join(core.VERIF_HOME, ".work"))
        with os.fdopen(fd, "w") as f:
            json.dump({"property": pid, "sub_check": a.sub, "mode": a.mode, "case": case_enc}, f)
        try:
            rc = subprocess.call([sys.executable, "-W", "ignore", "-m", "harness.main", pid, "--replay", path, "--in-mode"],
                                 stdout=subprocess.DEVNULL, stderr=subprocess.DEVNULL, cwd=core.VERIF_HOME, timeout=3600)
        except subprocess.TimeoutExpired:
            rc = -1
        finally:
            try:
                os.unlink(path)
            except OSError:
                pass
        return rc == 1
    try:
        single = enc(fail.case)
    except Exception:
        return
    if reproduces(single):
        return
    candidates = []
    hist = list(fail.history)
    if not hist or digest(hist[-1]) != digest(fail.case):
        hist.append(fail.case)
    candidates.append((hist, fail.violation))
    if fail.first is not None and fail.history and digest(fail.first[0]) != digest(fail.case):
        # the reported case was reached by shrinking, i.e. after attempts whose effect on the process is not recorded;
        # the first failure came after exactly the recorded history
        candidates.append((list(fail.history), fail.first[1]))
    for hist, viol in candidates:
        n = 2
        while True:
            seq = hist[-n:]
            seq_case = {"__sequence__": [enc(c) for c in seq]}
            if reproduces(seq_case):
                fail.case = {"__sequence__": seq}
                fail.violation = Violation(viol.message + f" [needs the {len(seq) - 1} preceding call(s) in the same process: "
                                           f"passes when executed alone in a fresh process]", **viol.detail)
                return
            if n >= len(hist):
                break
            n = min(len(hist), n * 2)
    fail.error = ("flaky: the case failed once but does not fail in a fresh process, neither alone nor after the "
                  f"{len(hist) - 1} preceding cases; first message: {fail.violation.message}")
    fail.violation = None


def _hyp_settings(sc, a, n):
    from hypothesis import settings, HealthCheck, Phase, Verbosity
    phases = [Phase.generate]
    if sc.shrink.get(a.tier, True):
        phases.append(Phase.shrink)
    return settings(max_examples=max(1, n), database=None, deadline=None, report_multiple_bugs=False,
                    suppress_health_check=list(HealthCheck), phases=phases, verbosity=Verbosity.quiet,
                    derandomize=False, print_blob=False)


def _run_hypothesis(sc, a, tally, fail, shard_i, shard_n, out):
    import hypothesis
    from hypothesis import given
    n = int(math.ceil(sc.budget[a.tier] / shard_n))
    out["n_planned"] += n
    hseed = core.seed_for(a.seed, mod_name(a), sc.name, a.mode if a.seed_per_mode else "", shard_i)

    strat = sc.strategy()
    if sc.ambient:
        from hypothesis import strategies as st
        strat = st.tuples(strat, ambient.strategy(sc.ambient)).map(lambda pair: ambient.tag(pair[0], pair[1]))

    @hypothesis.seed(hseed)
    @_hyp_settings(sc, a, n)
    @given(strat)
    def test(case):
        _run_one(sc, case, tally, fail)

    _drive(test, sc, tally, fail)


def _drive(test, sc, tally, fail):
    from hypothesis import errors as herr
    try:
        test()
    except Violation:
        pass
    except (herr.Flaky, herr.FlakyFailure) if hasattr(herr, "FlakyFailure") else herr.Flaky:
        if fail.error is not None:
            return
        if fail.case is not None and fail.violation is not None:
            # hypothesis could not reproduce the failure when it replayed the case: the confirmation step in child_main
            # decides (fresh process, alone, then after the preceding cases)
            fail.flaky = True
        else:
            fail.error = "hypothesis reported Flaky without a recorded failing case"
    except Exception as e:
        if fail.error is None:
            fail.error = "".join(traceback.format_exception(type(e), e, e.__traceback__))[-6000:]


def _run_stateful(sc, a, tally, fail, shard_i, shard_n, out):
    import hypothesis
    from hypothesis.stateful import run_state_machine_as_test
    n = int(math.ceil(sc.budget[a.tier] / shard_n))
    out["n_planned"] += n
    hseed = core.seed_for(a.seed, mod_name(a), sc.name, shard_i)
    machine = sc.strategy(tally, fail)       # factory: returns a RuleBasedStateMachine subclass
    machine = hypothesis.seed(hseed)(machine)
    st = _hyp_settings(sc, a, n)

    def test():
        run_state_machine_as_test(machine, settings=st)

    _drive(test, sc, tally, fail)


def mod_name(a):
    return a.property


# ============================================================================= parent

def parent_main(a):
    t0 = time.time()
    mod = load_property(a.property)
    pid = mod.PROPERTY
    work = os.path.join(core.VERIF_HOME, ".work")
    os.makedirs(work, exist_ok=True)
    tmpdir = tempfile.mkdtemp(prefix=f"{pid}-{a.tier}-", dir=work)
    jobs = []
    only = set(a.only.split(",")) if a.only else None
    skipped = []
    for sc in mod.SUBCHECKS:
        if only and sc.name not in only:
            continue
        if sc.fuzz_decode is not None and not _atheris_available():
            skipped.append(f"{sc.name}: atheris is not importable here; coverage-guided sub-check skipped (run ./setup.sh)")
            continue
        if a.tier not in sc.budget and sc.enumerate is None:
            continue
        if sc.budget.get(a.tier, 1) == 0:
            continue
        nsh = max(1, sc.shards.get(a.tier, 1))
        for mode in _modes(sc, a.tier):
            for s in range(nsh):
                outp = os.path.join(tmpdir, f"{sc.name}.{mode}.{s}.json")
                cmd = [sys.executable, "-W", "ignore", "-m", "harness.main", "--child", pid, a.tier,
                       "--sub", sc.name, "--mode", mode, "--shard", f"{s}/{nsh}", "--out", outp,
                       "--seed", str(a.seed)]
                if sc.fuzz_decode is not None:
                    runs = int(math.ceil(sc.budget[a.tier] / nsh))
                    cmd = [sys.executable, "-W", "ignore", "-m", "harness.fuzz", "--property", pid, "--sub", sc.name,
                           "--runs", str(runs), "--seed", str(core.seed_for(a.seed, pid, sc.name, s) % (2 ** 31)),
                           "--out", outp, "--corpus", os.path.join(tmpdir, f"corpus.{sc.name}.{s}")]
                    if s % 2 == 1:
                        cmd.append("--seed-corpus")
                env = dict(os.environ)
                env.update(MODES_ENV[mode])
                env.update(sc.env)
                jobs.append({"sc": sc, "mode": mode, "shard": s, "cmd": cmd, "env": env, "out": outp,
                             "timeout": sc.timeout_s.get(a.tier, 3600)})
    maxpar = int(os.environ.get("VERIF_JOBS", "16"))
    running, results, queue = [], [], list(jobs)
    while queue or running:
        while queue and len(running) < maxpar:
            j = queue.pop(0)
            j["log"] = open(j["out"] + ".log", "w")
            j["proc"] = subprocess.Popen(j["cmd"], env=j["env"], stdout=j["log"], stderr=subprocess.STDOUT,
                                         cwd=core.VERIF_HOME)
            j["t0"] = time.time()
            running.append(j)
        time.sleep(0.05)
        for j in list(running):
            rc = j["proc"].poll()
            if rc is None:
                if time.time() - j["t0"] > j["timeout"]:
                    j["proc"].kill()
                    j["proc"].wait()
                    j["timed_out"] = True
                    rc = -9
                else:
                    continue
            j["rc"] = rc
            j["log"].close()
            running.remove(j)
            results.append(j)

    # ---- merge
    errors, violations = [], []
    per_sub = {}
    for j in results:
        sc = j["sc"]
        ps = per_sub.setdefault(sc.name, {"evaluations": 0, "nontrivial": set(), "classes": {}, "discards": {},
                                          "known": {}, "samples": [], "extra": {}, "maxima": {}, "modes": _modes(sc, a.tier),
                                          "shards": 0, "exhaustive": sc.exhaustive, "wall_s": 0.0})
        data = None
        if os.path.exists(j["out"]):
            try:
                data = json.load(open(j["out"]))
            except Exception:
                data = None
        if data is None:
            tail = ""
            try:
                tail = open(j["out"] + ".log").read()[-3000:]
            except Exception:
                pass
            why = "timed out" if j.get("timed_out") else f"exit {j['rc']} without a result"
            errors.append(f"{sc.name}[{j['mode']} shard {j['shard']}]: child {why}\n{tail}")
            continue
        tl = data["tally"]
        ps["shards"] += 1
        ps["evaluations"] += tl["evaluations"]
        ps["nontrivial"].update(f"{j['mode']}:{d}" for d in tl["nontrivial"])
        ps["wall_s"] = max(ps["wall_s"], data.get("wall_s", 0.0))
        for k, v in tl["classes"].items():
            ps["classes"][k] = ps["classes"].get(k, 0) + v
        for k, v in tl["discards"].items():
            ps["discards"][k] = ps["discards"].get(k, 0) + v
        for k, v in tl["extra"].items():
            if isinstance(v, (int, float)):
                ps["extra"][k] = ps["extra"].get(k, 0) + v
        for k, v in tl.get("maxima", {}).items():
            ps["maxima"][k] = max(ps["maxima"].get(k, v), v)
        for k, v in tl["known"].items():
            kk = ps["known"].setdefault(k, {"count": 0, "what": v["what"], "sample": v["sample"]})
            kk["count"] += v["count"]
        for s in tl["samples"]:
            if len(ps["samples"]) < 3:
                s = dict(s)
                s["mode"] = j["mode"]
                ps["samples"].append(s)
        if data.get("error"):
            errors.append(f"{sc.name}[{j['mode']} shard {j['shard']}]: {data['error']}")
            if data.get("error_case") is not None:
                p = _write_replay(pid, sc.name, j["mode"], data["error_case"], "ERROR: " + data["error"][-400:], {}, suffix="error")
                errors.append(f"  (case that triggered it saved to {p})")
        if data.get("violation"):
            v = data["violation"]
            path = _write_replay(pid, sc.name, j["mode"], v["case"], v["message"], v.get("detail"))
            violations.append((sc.name, j["mode"], v["message"], path))

    open_, _fixed = core.load_known_findings()
    open_here = open_.get(pid, {})

    total_eval = sum(p["evaluations"] for p in per_sub.values())
    total_nt = sum(len(p["nontrivial"]) for p in per_sub.values())
    degenerate = []
    for name, p in per_sub.items():
        sc = find_sub(mod, name)
        if p["evaluations"] and sc.min_nontrivial_fraction > 0:
            frac = len(p["nontrivial"]) / p["evaluations"]
            if frac < sc.min_nontrivial_fraction:
                degenerate.append(f"{name}: non-trivial fraction {frac:.3f} < floor {sc.min_nontrivial_fraction}")

    samples = []
    for name, p in per_sub.items():
        for s in p["samples"][:2]:
            s = dict(s)
            s["sub_check"] = name
            samples.append(s)
    known_total = sum(k["count"] for p in per_sub.values() for k in p["known"].values())
    cov = {
        "evaluations": int(total_eval),
        "distinct_nontrivial": int(total_nt),
        "rule": mod.RULE,
        "samples": samples[:12],
        "sub_checks": {
            name: {
                "evaluations": p["evaluations"], "distinct_nontrivial": len(p["nontrivial"]),
                "modes": p["modes"], "child_processes": p["shards"], "classes": p["classes"],
                "discarded": p["discards"], "excluded_known": {k: v["count"] for k, v in p["known"].items()},
                "exhaustive": bool(p["exhaustive"]), "extra": p["extra"], "maxima": p["maxima"], "max_child_wall_s": round(p["wall_s"], 2),
            } for name, p in per_sub.items()
        },
        "excluded_known": int(known_total),
    }
    if per_sub and all(p["exhaustive"] for p in per_sub.values()):
        cov["exhaustive"] = True
    elif any(p["exhaustive"] for p in per_sub.values()):
        cov["exhaustive_sub_checks"] = [n for n, p in per_sub.items() if p["exhaustive"]]
    evidence = {
        "property_id": pid, "tier": a.tier, "seed": int(a.seed), "level": mod.LEVEL,
        "coverage": cov, "assumptions": list(getattr(mod, "ASSUMPTIONS", [])),
        "wall_s": round(time.time() - t0, 2), "violations": len(violations),
    }
    if errors:
        evidence["coverage"]["machinery_errors"] = [e[:500] for e in errors[:5]]
    if skipped:
        evidence["coverage"]["skipped_sub_checks"] = skipped
        for sk in skipped:
            print("  skipped:", sk)
    if not a.no_evidence:
        evdir = os.path.join(core.VERIF_HOME, "evidence")
        os.makedirs(evdir, exist_ok=True)
        tmp = os.path.join(evdir, f".{pid}.json.tmp")
        with open(tmp, "w") as f:
            json.dump(evidence, f, indent=1, sort_keys=False)
        os.replace(tmp, os.path.join(evdir, f"{pid}.json"))
        _validate_evidence(os.path.join(evdir, f"{pid}.json"))

    # ---- report
    print(f"[{pid} {a.tier} seed={a.seed}] evaluations={total_eval} distinct_nontrivial={total_nt} "
          f"excluded_known={known_total} wall={time.time() - t0:.1f}s")
    for name, p in per_sub.items():
        print(f"  {name}: n={p['evaluations']} nontrivial={len(p['nontrivial'])} modes={','.join(p['modes'])} "
              f"discards={sum(p['discards'].values())} classes={_short(p['classes'])}")
    seen_known = {}
    for p in per_sub.values():
        for k, v in p["known"].items():
            seen_known[k] = seen_known.get(k, 0) + v["count"]
    for k, n in sorted(seen_known.items()):
        print(f"KNOWN-FINDING: property={pid} {open_here.get(k, k)} [key={k}; {n} generated cases hit it this run and were excluded]")
    printed = set()
    for (name, mode, msg, path) in violations:
        if path in printed:
            continue
        printed.add(path)
        print(f"  violation in {name} [{mode}]: {msg}")
        print(f"VIOLATION property={pid} replay={path}")
    _cleanup(tmpdir, keep=bool(errors))
    if violations:
        return 1
    if errors:
        eprint("MACHINERY ERROR:", errors[0])
        for e in errors[1:]:
            eprint("MACHINERY ERROR (further):", e.strip().splitlines()[0][:200], "...", e.strip().splitlines()[-1][:200])
        return 2
    if degenerate:
        for d in degenerate:
            eprint("GENERATOR DEGENERATE:", d)
        return 2
    if total_nt < 2:
        eprint("GENERATOR DEGENERATE: fewer than 2 non-trivial cases")
        return 2
    return 0


_ATHERIS = None


def _atheris_available():
    global _ATHERIS
    if _ATHERIS is None:
        _ATHERIS = subprocess.call([sys.executable, "-c", "import atheris"], stdout=subprocess.DEVNULL,
                                   stderr=subprocess.DEVNULL) == 0
    return _ATHERIS


def _modes(sc, tier):
    m = sc.modes
    if isinstance(m, dict):
        return list(m.get(tier) or m.get("quick") or ["jit"])
    return list(m)


def _short(d, n=8):
    items = sorted(d.items(), key=lambda kv: -kv[1])[:n]
    return "{" + ", ".join(f"{k}:{v}" for k, v in items) + ("…" if len(d) > n else "") + "}"


def _cleanup(tmpdir, keep):
    if keep:
        return
    import shutil
    shutil.rmtree(tmpdir, ignore_errors=True)


def _write_replay(pid, sub, mode, case_enc, message, detail, suffix=""):
    d = os.path.join(core.VERIF_HOME, "replays", pid)
    os.makedirs(d, exist_ok=True)
    import hashlib
    h = hashlib.sha1(json.dumps(case_enc, sort_keys=True).encode()).hexdigest()[:12]
    path = os.path.join(d, f"{sub}-{mode}-{h}{('-' + suffix) if suffix else ''}.json")
    with open(path, "w") as f:
        json.dump({"property": pid, "sub_check": sub, "mode": mode, "message": message, "detail": detail,
                   "case": case_enc}, f, indent=1)
    return path


def _validate_evidence(path):
    try:
        import jsonschema
    except Exception:
        return
    schema_path = "/root/.vp/EVIDENCE.schema.json"
    local = os.path.join(core.VERIF_HOME, "harness", "EVIDENCE.schema.json")
    sp = schema_path if os.path.exists(schema_path) else local
    if not os.path.exists(sp):
        return
    try:
        jsonschema.validate(json.load(open(path)), json.load(open(sp)))
    except jsonschema.ValidationError as e:
        eprint(f"evidence file {path} does not validate: {e.message}")


# ============================================================================= replay

def replay_main(a):
    data = json.load(open(a.replay))
    pid = data["property"]
    if a.property and a.property != pid:
        raise HarnessError(f"replay file is for {pid}, not {a.property}")
    mode = data.get("mode", "jit")
    if not a.in_mode:
        env = dict(os.environ)
        env.update(MODES_ENV.get(mode, {}))
        mod = load_property(pid)
        env.update(find_sub(mod, data["sub_check"]).env)
        cmd = [sys.executable, "-W", "ignore", "-m", "harness.main", pid, "--replay", a.replay, "--in-mode"]
        return subprocess.call(cmd, env=env, cwd=core.VERIF_HOME)
    mod = load_property(pid)
    sc = find_sub(mod, data["sub_check"])
    if sc.setup:
        sc.setup()
    case = dec(data["case"])
    tally = Tally()
    open_, _ = core.load_known_findings()
    tally.open_keys = set(open_.get(pid, {}).keys())
    if isinstance(case, dict) and "__sequence__" in case:
        seq = case["__sequence__"]
        for c in seq[:-1]:          # the history: executed for its side effects on process state
            tally.begin(c)
            try:
                ambient.execute(sc, c, tally)
            except (Discard, Violation):
                pass
        case = seq[-1]
    tally.begin(case)
    try:
        ambient.execute(sc, case, tally)
    except Discard as d:
        print(f"replay: case is outside the property's domain on this tree ({d.reason})")
        return 0
    except Violation as v:
        print(f"  {v.message}")
        if v.detail:
            print("  detail:", json.dumps(core.brief(v.detail))[:2000])
        print(f"VIOLATION property={pid} replay={os.path.abspath(a.replay)}")
        return 1
    for k, v in tally.known.items():
        print(f"KNOWN-FINDING: property={pid} {open_.get(pid, {}).get(k, k)} [key={k}]")
    print("replay: property held on this case")
    return 0


# ============================================================================= entry

def main(argv=None):
    ap = argparse.ArgumentParser()
    ap.add_argument("property", nargs="?")
    ap.add_argument("tier", nargs="?", default=os.environ.get("VERIF_TIER", "quick"))
    ap.add_argument("--child", action="store_true")
    ap.add_argument("--sub")
    ap.add_argument("--mode", default="jit")
    ap.add_argument("--shard", default="0/1")
    ap.add_argument("--out")
    ap.add_argument("--seed", type=int, default=None)
    ap.add_argument("--replay")
    ap.add_argument("--in-mode", action="store_true")
    ap.add_argument("--only", help="comma-separated sub-check names (development aid)")
    ap.add_argument("--no-evidence", action="store_true")
    ap.add_argument("--no-confirm", action="store_true")
    a = ap.parse_args(argv)
    if a.seed is None:
        try:
            a.seed = int(os.environ.get("VERIF_SEED", "1"))
        except ValueError:
            a.seed = 1
    a.seed_per_mode = False
    if a.tier not in ("quick", "thorough"):
        a.tier = "quick"
    try:
        if a.replay:
            return replay_main(a)
        if not a.property:
            ap.error("property id required")
        if a.child:
            return child_main(a)
        return parent_main(a)
    except HarnessError as e:
        eprint(f"MACHINERY ERROR: {e}")
        return 2
    except Exception:
        traceback.print_exc()
        return 2


if __name__ == "__main__":
    sys.exit(main())
