"""Persistent worker process speaking JSON lines: used to execute the same case in another execution mode
(JIT disabled / Numba absent / another PYTHONHASHSEED) or in a pristine forked child (clean memo caches).

    parent -> worker : {"id": n, "op": "...", "args": <enc>}
    worker -> parent : {"id": n, "ok": true, "result": <enc>} | {"id": n, "ok": false, "error": "..."}
"""
import os
import sys

if os.environ.get("VERIF_MODE") == "nonumba":
    sys.modules["numba"] = None

import json
import subprocess
import traceback

import numpy as np

from harness.core import enc, dec, HarnessError


# ----------------------------------------------------------------------------- operations (run inside the worker)

def op_info():
    from fast_ticc import numba_guard
    info = {"numba_available": bool(numba_guard.NUMBA_AVAILABLE), "disable_jit": os.environ.get("NUMBA_DISABLE_JIT"),
            "hashseed": os.environ.get("PYTHONHASHSEED"), "pid": os.getpid()}
    if numba_guard.NUMBA_AVAILABLE:
        import numba
        info["numba_threads"] = int(numba.get_num_threads())
    return info


def op_labels(cost, beta, layout="C", dtype=None):
    from fast_ticc import cluster_label_assignment as cla
    cost = np.asarray(cost)
    if dtype:
        cost = cost.astype(dtype)
    if layout == "F":
        cost = np.asfortranarray(cost)
    elif layout == "strided":
        big = np.zeros((cost.shape[0] * 2, cost.shape[1] * 2), dtype=cost.dtype)
        big[::2, 1::2] = cost
        cost = big[::2, 1::2]
    elif layout == "readonly":
        cost = cost.copy()
        cost.setflags(write=False)
    labels, c = cla.assign_point_cluster_labels(cost, beta)
    return {"labels": [int(v) for v in labels], "cost": float(c)}


def op_ll_table(thetas, means, points, W, threads=None):
    from fast_ticc import likelihood
    from fast_ticc.containers import arguments, model_state
    K = len(thetas)
    pts = np.asarray(points)
    args = arguments.UserArguments(sparsity_weight=0.1, iteration_limit=1, label_switching_cost=1.0, min_cluster_size=2,
                                   min_meaningful_covariance=0, num_clusters=K, num_processors=1, window_size=W, biased_covariance=False)
    ms = model_state.ModelState.empty_model(args, pts)
    for k in range(K):
        ms.clusters[k].train_inverse = np.asarray(thetas[k])
        ms.clusters[k].stacked_data_mean = np.asarray(means[k])
    out = {}
    if threads:
        import numba
        for n in threads:
            numba.set_num_threads(int(n))
            out[str(n)] = np.asarray(likelihood.all_points_all_clusters_log_likelihood(ms, pts))
        return {"tables": out, "layer": numba.threading_layer()}
    return {"table": np.asarray(likelihood.all_points_all_clusters_log_likelihood(ms, pts))}


def _run_summary(cfg, workers=1):
    from harness import e2e
    from props.C19 import _digest_any
    import hashlib
    if workers > 1:
        os.environ["CUPCAKE_ENABLE_MULTIPROCESSING"] = "1"
        cfg = dict(cfg, num_processors=workers)
    else:
        os.environ.pop("CUPCAKE_ENABLE_MULTIPROCESSING", None)
    fail_at = cfg.get("fail_in_relabel_of_round")
    restore = None
    if fail_at is not None:
        # an earlier call that fails part-way (after the optimisation of round `fail_at`): what it leaves behind must not matter
        from fast_ticc import cluster_label_assignment as _cla
        real = _cla.predict_cluster_labels
        calls = {"n": 0}

        def failing(*a, **k):
            calls["n"] += 1
            if calls["n"] - 1 == fail_at:
                raise RuntimeError("injected failure of an earlier call")
            return real(*a, **k)
        _cla.predict_cluster_labels = failing
        restore = (_cla, real)
        cfg = {k: v for k, v in cfg.items() if k != "fail_in_relabel_of_round"}
    try:
        tr = e2e.run(cfg, sync_pool=(workers == 0), record_admm=False)
    finally:
        if restore:
            restore[0].predict_cluster_labels = restore[1]
    if not tr.ok:
        return {"ok": False, "exc": type(tr.exc).__name__, "msg": str(tr.exc)[:200]}
    d = _digest_any(tr.result)
    h = hashlib.sha256()
    for k in sorted(d):
        v = d[k]
        h.update(k.encode())
        h.update(repr(v).encode() if not isinstance(v, (bytes, list)) else (b"".join(x if isinstance(x, bytes) else repr(x).encode() for x in v) if isinstance(v, list) else v))
    rounds = []
    for q in tr.rounds:
        ri = q["relabel_inputs"]
        rounds.append({"labels": q["phases"]["relabel"]["after"]["labels"], "cost": float(q["phases"]["relabel"]["after"]["cost"]),
                       "table": np.asarray(ri["cost"]), "beta": ri["beta"]})
    return {"ok": True, "digest": h.hexdigest(), "labels": tr.end["model"]["labels"], "rounds_n": tr.end["rounds"],
            "reason": tr.end["reason"], "cost": float(tr.result.label_assignment_cost), "rounds": rounds}


def op_e2e(cfg, workers=0, with_rounds=True, threads=None):
    if threads:
        # the same run once per Numba thread-team size (JIT mode): digest of every result field
        import numba
        out = {}
        for n in threads:
            numba.set_num_threads(int(n))
            r = _run_summary(cfg, workers)
            out[str(n)] = {"ok": r["ok"], "digest": r.get("digest"), "exc": r.get("exc"), "cost": r.get("cost")}
        return {"by_threads": out}
    s = _run_summary(cfg, workers)
    if not with_rounds and s.get("ok"):
        s.pop("rounds")
    return s


def _forked(fn):
    """Run fn() in a forked child of this (pristine) worker and ship its JSON-able result back."""
    r, w = os.pipe()
    pid = os.fork()
    if pid == 0:
        try:
            os.close(r)
            try:
                out = {"ok": True, "result": enc(fn())}
            except Exception as e:
                out = {"ok": False, "error": "".join(traceback.format_exception(type(e), e, e.__traceback__))[-3000:]}
            with os.fdopen(w, "w") as f:
                json.dump(out, f)
        finally:
            os._exit(0)
    os.close(w)
    with os.fdopen(r) as f:
        data = f.read()
    os.waitpid(pid, 0)
    if not data:
        raise HarnessError("forked child died without a result")
    out = json.loads(data)
    if not out["ok"]:
        raise HarnessError("forked child failed: " + out["error"])
    return dec(out["result"])


def op_e2e_pristine(cfg, history=(), workers=1):
    """In a child forked from a process that imported the library but never called it: run `history` then `cfg`."""
    def body():
        hist = []
        for h in history:
            s = _run_summary(h, workers)
            hist.append(bool(s.get("ok")))
        s = _run_summary(cfg, workers)
        s.pop("rounds", None)
        s["history_ok"] = hist
        s["caches"] = _check_caches(cfg, history)
        return s
    return _forked(body)


def _check_caches(cfg, history):
    """After the calls: the memoised index helpers must still agree with an independent enumeration."""
    from harness.core import Tally, Violation
    from props import C11
    t = Tally()
    shapes = {(c["N"], c["W"]) for c in list(history) + [cfg]}
    try:
        for (N, W) in sorted(shapes):
            C11.check_classes(N, W, t)
            C11.check_compress(N * W, t)
    except Violation as v:
        return {"ok": False, "message": v.message}
    return {"ok": True, "shapes": sorted(list(s) for s in shapes)}


OPS = {"info": op_info, "labels": op_labels, "ll_table": op_ll_table, "e2e": op_e2e, "e2e_pristine": op_e2e_pristine}


# ----------------------------------------------------------------------------- worker main loop

def serve():
    proto = os.fdopen(os.dup(1), "w")
    os.dup2(2, 1)                   # anything the library prints goes to stderr, never into the protocol stream
    sys.stdout = sys.stderr
    for line in sys.stdin:
        line = line.strip()
        if not line:
            continue
        req = json.loads(line)
        try:
            res = OPS[req["op"]](**dec(req.get("args", {})))
            out = {"id": req["id"], "ok": True, "result": enc(res)}
        except Exception as e:
            out = {"id": req["id"], "ok": False, "error": "".join(traceback.format_exception(type(e), e, e.__traceback__))[-4000:],
                   "etype": type(e).__name__}
        proto.write(json.dumps(out) + "\n")
        proto.flush()


# ----------------------------------------------------------------------------- client side

class Worker:
    def __init__(self, mode="jit", env=None):
        from harness.main import MODES_ENV
        e = dict(os.environ)
        for k in ("NUMBA_DISABLE_JIT", "VERIF_MODE"):
            e.pop(k, None)
        e.update(MODES_ENV[mode])
        if env:
            for k, v in env.items():
                if v is None:
                    e.pop(k, None)
                else:
                    e[k] = v
        self.mode = mode
        self.proc = subprocess.Popen([sys.executable, "-W", "ignore", "-m", "harness.rpcworker"], env=e, stdin=subprocess.PIPE,
                                     stdout=subprocess.PIPE, stderr=subprocess.DEVNULL, text=True, cwd=os.environ.get("VERIF_HOME"))
        self.n = 0

    def call(self, op, **args):
        self.n += 1
        self.proc.stdin.write(json.dumps({"id": self.n, "op": op, "args": enc(args)}) + "\n")
        self.proc.stdin.flush()
        line = self.proc.stdout.readline()
        if not line:
            raise HarnessError(f"{self.mode} worker died (exit {self.proc.poll()})")
        out = json.loads(line)
        if not out["ok"]:
            raise WorkerOpError(out.get("etype", "Exception"), out["error"])
        return dec(out["result"])

    def close(self):
        try:
            self.proc.stdin.close()
            self.proc.wait(5)
        except Exception:
            self.proc.kill()


class WorkerOpError(Exception):
    def __init__(self, etype, text):
        super().__init__(f"{etype}: {text[-600:]}")
        self.etype = etype
        self.text = text


if __name__ == "__main__":
    serve()
