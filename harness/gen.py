"""Hypothesis strategies shared by several properties.  All cases are JSON-able (see core.enc)."""
import math

import numpy as np
from hypothesis import strategies as st


# ----------------------------------------------------------------------------- cost tables (C01, C15, C18, C19)

def _exact_value():
    # multiples of 1/8 with |v| <= 2**20: every partial sum of <= 4000 of them is exact in a double
    return st.integers(min_value=-(2 ** 23), max_value=2 ** 23).map(lambda n: n / 8.0)


_EXACT_BETAS = [0.0, 0.125, 0.5, 1.0, 3.0, 17.375, 1024.0, float(2 ** 30)]


@st.composite
def cost_case(draw, classes=("E", "E", "F"), shapes=("tiny", "tiny", "tiny", "small", "small", "long", "wide"),
              dtypes=(), very_long=False):
    cls = draw(st.sampled_from(list(classes)))
    shape = draw(st.sampled_from(list(shapes)))
    if very_long and draw(st.integers(0, 39)) == 0:
        shape = "very_long"
    if shape == "very_long":   # more rows than any fixed block size a kernel is likely to use (4096, 8192)
        T = draw(st.sampled_from([4096, 4097, 4100, 5000, 8192, 8193, 8200, 9000])) + draw(st.integers(0, 2))
        K = draw(st.integers(2, 4))
        cls = "E"
    elif shape == "tiny":        # brute force possible
        T = draw(st.integers(1, 7))
        kmax = max(1, int(math.floor(60000 ** (1.0 / T))))
        K = draw(st.integers(1, min(6, kmax)))
    elif shape == "small":
        T = draw(st.integers(1, 40))
        K = draw(st.integers(1, 9))
    elif shape == "long":
        T = draw(st.integers(41, 400))
        K = draw(st.integers(2, 12))
    else:                      # wide: crosses the 255/256 boundary of narrow successor tables
        T = draw(st.integers(1, 3))
        K = draw(st.integers(200, 300))
    vector_beta = draw(st.booleans())
    n = T * K
    if shape in ("tiny", "small"):
        if cls == "E":
            mode = draw(st.sampled_from(["free", "pool", "pool"]))
            if mode == "pool":
                pool = draw(st.lists(_exact_value(), min_size=1, max_size=3))
                vals = draw(st.lists(st.sampled_from(pool), min_size=n, max_size=n))
            else:
                vals = draw(st.lists(_exact_value(), min_size=n, max_size=n))
            if vector_beta:
                beta = draw(st.lists(st.one_of(st.sampled_from(_EXACT_BETAS),
                                               st.integers(0, 2 ** 12).map(lambda v: v / 8.0)), min_size=T, max_size=T))
            else:
                beta = draw(st.one_of(st.sampled_from(_EXACT_BETAS), st.integers(0, 2 ** 12).map(lambda v: v / 8.0)))
        else:
            exp = draw(st.integers(-300, 297))
            lim = min(10.0 ** exp, 1e300 / max(T, 1) / 4)
            spread = draw(st.sampled_from(["uniform", "rows", "tie16"]))
            base = draw(st.lists(st.floats(-1.0, 1.0, allow_nan=False, allow_infinity=False, allow_subnormal=True),
                                 min_size=n, max_size=n))
            if spread == "rows":
                exps = draw(st.lists(st.integers(-300, exp), min_size=T, max_size=T))
                vals = [b * min(10.0 ** exps[i // K], lim) for i, b in enumerate(base)]
            elif spread == "tie16":
                # near ties at large magnitude: a big common offset plus tiny differences
                off = draw(st.sampled_from([1e16, -1e16, 4503599627370496.0, 1e8]))
                vals = [off + math.floor(b * 8) for b in base]
            else:
                vals = [b * lim for b in base]
            bmax = draw(st.sampled_from([0.0, 1e-300, 1.0, lim, lim * 1e-8, 1e300 / max(T, 1) / 4]))
            if vector_beta:
                beta = draw(st.lists(st.floats(0.0, max(bmax, 0.0), allow_nan=False), min_size=T, max_size=T))
            else:
                beta = draw(st.floats(0.0, max(bmax, 0.0), allow_nan=False))
        cost = np.array(vals, dtype=np.float64).reshape(T, K)
        beta_v = np.array(beta, dtype=np.float64) if vector_beta else float(beta)
    else:
        seed = draw(st.integers(0, 2 ** 32 - 1))
        rng = np.random.default_rng(seed)
        if cls == "E":
            kind = draw(st.sampled_from(["free", "pool", "regimes"]))
            if kind == "pool":
                pool = rng.integers(-(2 ** 20), 2 ** 20, size=3) / 8.0
                cost = pool[rng.integers(0, 3, size=(T, K))]
            elif kind == "regimes":
                # piecewise-constant cheapest cluster so that the optimal path really switches
                cost = rng.integers(0, 2 ** 10, size=(T, K)) / 8.0 + 64.0
                pos = 0
                while pos < T:
                    ln = int(rng.integers(1, max(2, T // 4)))
                    cost[pos:pos + ln, int(rng.integers(0, K))] -= 64.0
                    pos += ln
            else:
                cost = rng.integers(-(2 ** 20), 2 ** 20, size=(T, K)) / 8.0
            if vector_beta:
                beta_v = rng.integers(0, 2 ** 10, size=T) / 8.0
            else:
                beta_v = float(draw(st.sampled_from(_EXACT_BETAS + [40.0, 200.0])))
        else:
            exp = draw(st.integers(-300, 296))
            lim = min(10.0 ** exp, 1e300 / T / 4)
            cost = rng.uniform(-1, 1, size=(T, K)) * lim
            if draw(st.booleans()):
                cost = cost * (10.0 ** rng.integers(-12, 1, size=(T, 1)))
            bscale = draw(st.sampled_from([0.0, 1e-3, 1.0, 10.0])) * lim
            if vector_beta:
                beta_v = rng.uniform(0, 1, size=T) * bscale
            else:
                beta_v = float(bscale * rng.uniform(0, 1))
        cost = np.ascontiguousarray(cost, dtype=np.float64)
    if cls == "E" and cost.shape[1] >= 2 and draw(st.integers(0, 4)) == 0:
        # a few entries are astronomically expensive (2**57, exactly representable); every row keeps at least one ordinary entry,
        # so no optimal path touches them, the optimum and its cost stay exact, and a kernel that keeps absolute values never
        # notices - one that re-centres or rescales rows loses the small differences next to them
        seed2 = draw(st.integers(0, 2 ** 32 - 1))
        r2 = np.random.default_rng(seed2)
        Tn, Kn = cost.shape
        cost = np.array(cost, dtype=np.float64, copy=True)
        for i in r2.choice(Tn, size=min(Tn, 1 + int(r2.integers(0, 3))), replace=False):
            cols = r2.choice(Kn, size=int(r2.integers(1, Kn)), replace=False)
            cost[i, cols] = float(2 ** 57)
        outliers = True
    else:
        outliers = False
    case = {"cls": cls, "shape": shape, "cost": cost, "beta": beta_v, "reuse_buffers": draw(st.booleans())}
    if outliers:
        case["huge_entries"] = True
    if cls == "E" and dtypes and draw(st.integers(0, 7)) == 0:
        # the same exact-arithmetic table handed over in another real dtype (values exactly representable there)
        dt = draw(st.sampled_from(list(dtypes)))
        if outliers and dt == "int32":
            dt = "int64"                      # 2**57 does not fit in 32 bits
        if dt.startswith("int"):
            cost = np.round(cost)
        case["cost"] = np.ascontiguousarray(cost.astype(dt).astype(np.float64))
        case["dtype"] = dt
    return case


# ----------------------------------------------------------------------------- end-to-end run configurations

@st.composite
def e2e_config(draw, front=("single", "single", "joint"), max_N=3, max_W=4, max_K=4, t_range=(30, 120),
               limits=(1, 2, 3, 5, 5, 30, 30), betas=(0.0, 1.0, 10.0, 100.0, 1000.0), lam_forms=("scalar", "scalar", "const_matrix", "random_matrix"),
               beta_forms=("scalar", "scalar", "scalar", "vector"), eps_values=(0,), allow_degenerate=False, scales=False,
               max_series=6, procs=(1, 1, 1, 2, 3, 5), allow_short=False, offsets=(), scale_prob=1.0, m_large=False, joint_vector=False):
    fr = draw(st.sampled_from(list(front)))
    N = draw(st.integers(1, max_N))
    W = draw(st.integers(1, max_W))
    K = draw(st.integers(2, max_K))
    nser = 1 if fr == "single" else draw(st.integers(1, max_series))
    lo = max(t_range[0], W + K + 2)
    if fr == "single":
        lengths = [draw(st.integers(lo, max(lo, t_range[1])))]
    else:
        per = max(W + K + 2, t_range[0] // 2)
        lengths = [draw(st.integers(per, max(per, t_range[1] // 2))) for _ in range(nser)]
        if allow_short and nser >= 2:
            # some series barely longer than the window (stacked length 1..3): the others keep the run viable
            for i in range(nser):
                if i != 0 and draw(st.integers(0, 3)) == 0:
                    lengths[i] = W + draw(st.integers(0, 2))
            if draw(st.booleans()):
                lengths = lengths[::-1]
    cfg = {
        "front": fr, "N": N, "W": W, "K": K, "lengths": lengths,
        "regimes": draw(st.integers(1, K)),
        "mean_spread": draw(st.sampled_from([0.0, 0.5, 2.0, 6.0])),
        "data_seed": draw(st.integers(0, 2 ** 31 - 1)),
        "np_seed": draw(st.integers(0, 2 ** 31 - 1)),
        "py_seed": draw(st.integers(0, 2 ** 31 - 1)),
        "beta": draw(st.sampled_from(list(betas))),
        "beta_form": draw(st.sampled_from(list(beta_forms))),
        "lam": draw(st.sampled_from([0.0, 0.01, 0.11, 0.11, 0.5, 1.0])),
        "lam_form": draw(st.sampled_from(list(lam_forms))),
        "limit": draw(st.sampled_from(list(limits))),
        "m": draw(st.sampled_from([1, 2, 2, 3, 4, 5, 6])),
        "biased": draw(st.booleans()),
        "eps": draw(st.sampled_from(list(eps_values))),
        "num_processors": draw(st.sampled_from(list(procs))),
        "boundary_regime_flip": draw(st.booleans()),
        "outliers": draw(st.sampled_from([0, 0, 0, 1, 1, 2, 3])),
        "reuse_buffers": draw(st.booleans()),
        "prior_calls_on_same_arrays": draw(st.booleans()),
        "series_as_views": draw(st.sampled_from([False, False, False, True, "interleaved"])),
        "mp_env": draw(st.sampled_from([False, False, True])),
        "quantise": draw(st.sampled_from([None, None, None, None, 1.0, 2.0])),
        "stray_pair": draw(st.sampled_from([False, False, False, False, True])),
        "flag_form": draw(st.sampled_from(["bool", "bool", "np.bool_", "int"])),
        "first_series_dtype": draw(st.sampled_from([None, None, None, None, None, "float32", "int64"])),      # how the caller spells True / False
        "series_kind": draw(st.sampled_from([None, None, None, None, None, "subclass", "masked", "memmap_ro", "memmap_rw"])),
        # how the caller hands things over: the documented positional order (data, window_size, num_clusters) instead of
        # keywords; for the joint front end, any iterable of arrays (the front end says so), not only a list
        "positional_call": draw(st.sampled_from([False, False, True])),
        "series_container": draw(st.sampled_from(["list", "list", "tuple", "generator", "iterator"])),
    }
    if cfg["beta_form"] == "scalar" and draw(st.integers(0, 11)) == 0:
        cfg["beta"] = draw(st.sampled_from([1e300, 1e-300, 5e-324, 1e150]))      # boundary magnitudes of a legal switching cost
    if cfg["beta_form"] == "vector" and draw(st.booleans()):
        cfg["beta_vector_seed"] = draw(st.integers(0, 2 ** 16))
    if cfg["beta_form"] == "vector" and draw(st.booleans()):
        cfg["beta_zero_at"] = sorted(draw(st.sets(st.sampled_from(
            ["first", "second", "second_to_last", "last", "pair_in_the_middle", "scattered"]), min_size=1, max_size=3)))
    if fr == "joint" and not joint_vector:
        cfg["beta_form"] = "scalar"          # (checks whose oracle reads the cost as a scalar keep it one for joint runs)
        cfg.pop("beta_vector_seed", None)
        cfg.pop("beta_zero_at", None)
    if draw(st.integers(0, 4)) == 0:
        which = draw(st.sampled_from(["eps", "eps", "biased", "limit", "m", "lam", "beta", "K"]))
        cfg["prior_run_override"] = {
            "eps": {"eps": draw(st.sampled_from([0, 1e-3, 1e-2, 0.1])) if cfg["eps"] else draw(st.sampled_from([1e-3, 1e-2, 0.1]))},
            "biased": {"biased": not cfg["biased"]},
            "limit": {"limit": 1 if cfg["limit"] > 1 else 3},
            "m": {"m": cfg["m"] + 1},
            "lam": {"lam": 0.3 if cfg["lam"] != 0.3 else 0.11},
            "beta": {"beta": cfg["beta"] + 1.5},
            "K": {"K": cfg["K"] + 1 if cfg["K"] < 4 else cfg["K"] - 1},
        }[which]
    if offsets:
        cfg["data_offset"] = draw(st.sampled_from(list(offsets)))
    if m_large and draw(st.integers(0, 5)) == 0:
        cfg["m"] = draw(st.sampled_from([20, 30, 40, 55]))      # large refills: thresholds derived from min_cluster_size show here
    if scales and (scale_prob >= 1.0 or draw(st.floats(0, 1)) < scale_prob):
        cfg["sensor_scales"] = [10.0 ** draw(st.integers(-6, 6)) for _ in range(N)]
    if allow_degenerate:
        if draw(st.integers(0, 3)) == 0:
            cfg["constant_sensor"] = draw(st.integers(0, N - 1))
        if draw(st.integers(0, 3)) == 0:
            cfg["duplicate_rows"] = True
    return cfg


@st.composite
def e2e_wide_series_config(draw):
    """A single series with fewer rows than sensors (T < N), and the square case: nothing in the documented interface relates
    the two data dimensions, so the rows stay the time steps."""
    W = draw(st.integers(1, 2))
    T = draw(st.integers(8, 18))
    N = T + draw(st.integers(0, 8)) if draw(st.integers(0, 4)) else max(2, T - draw(st.integers(1, 3)))
    return {
        "front": "single", "N": N, "W": W, "K": draw(st.integers(2, 3)), "lengths": [T + W - 1], "regimes": 2,
        "mean_spread": draw(st.sampled_from([2.0, 6.0])), "data_seed": draw(st.integers(0, 2 ** 31 - 1)),
        "np_seed": draw(st.integers(0, 2 ** 31 - 1)), "py_seed": draw(st.integers(0, 2 ** 31 - 1)),
        "beta": draw(st.sampled_from([0.0, 1.0, 10.0])), "beta_form": "scalar",
        "lam": draw(st.sampled_from([0.11, 0.5])), "lam_form": "scalar", "limit": draw(st.sampled_from([1, 2, 3])),
        "m": 2, "biased": draw(st.booleans()), "eps": 0, "num_processors": 1, "boundary_regime_flip": False,
    }


@st.composite
def e2e_long_config(draw, front=("single",)):
    """Runs with more than 4096 stacked rows (block sizes such as 4096 are a classic place for chunking mistakes) and
    frequent label changes, so that a change lands on any given boundary with high probability."""
    N = draw(st.integers(1, 2))
    W = draw(st.integers(1, 2))
    K = draw(st.integers(2, 3))
    T = draw(st.sampled_from([4097, 4200, 5000, 8193, 8300, 9000])) + W - 1 + draw(st.integers(0, 3))
    return {
        "front": "single", "N": N, "W": W, "K": K, "lengths": [T], "regimes": K,
        "mean_spread": draw(st.sampled_from([1.0, 4.0, 4.0])), "data_seed": draw(st.integers(0, 2 ** 31 - 1)),
        "np_seed": draw(st.integers(0, 2 ** 31 - 1)), "py_seed": draw(st.integers(0, 2 ** 31 - 1)),
        "beta": draw(st.sampled_from([0.25, 1.0, 3.0])), "beta_form": draw(st.sampled_from(["scalar", "scalar", "vector"])),
        "lam": 0.11, "lam_form": "scalar", "limit": draw(st.sampled_from([2, 1, 3])), "m": draw(st.integers(2, 6)),
        "biased": draw(st.booleans()), "eps": 0, "num_processors": 1, "boundary_regime_flip": False, "outliers": 0,
        "short_segments": True, "reuse_buffers": False,
    }


@st.composite
def e2e_oscillating_config(draw):
    """Tiny runs in which repopulation tends to be undone by the next relabelling (period-2 behaviour of the main loop)."""
    K = draw(st.integers(2, 3))
    return {
        "front": "single", "N": 1, "W": 1, "K": K, "lengths": [draw(st.integers(24, 48))], "regimes": draw(st.integers(1, 2)),
        "mean_spread": draw(st.sampled_from([0.0, 0.5, 2.0])), "data_seed": draw(st.integers(0, 2 ** 31 - 1)),
        "np_seed": draw(st.integers(0, 2 ** 31 - 1)), "py_seed": draw(st.integers(0, 2 ** 31 - 1)),
        "beta": draw(st.sampled_from([2.0, 5.0, 10.0, 20.0])), "beta_form": "scalar",
        "lam": draw(st.sampled_from([0.11, 0.5])), "lam_form": "scalar", "limit": draw(st.sampled_from([8, 12, 30])),
        "m": draw(st.integers(3, 6)), "biased": draw(st.booleans()), "eps": 0, "num_processors": 1,
        "boundary_regime_flip": False, "outliers": draw(st.sampled_from([0, 1, 2])), "reuse_buffers": False,
    }


@st.composite
def e2e_tiny_cluster_large_m_config(draw):
    """Runs in which some cluster tends to hold only a handful of windows (a short excursion in the data) while
    min_cluster_size is large: thresholds derived from min_cluster_size instead of the fixed 'fewer than 2 points' show here."""
    K = draw(st.integers(2, 3))
    return {
        "front": "single", "N": 1, "W": 1, "K": K + 1, "lengths": [draw(st.integers(130, 220))], "regimes": K,
        "mean_spread": draw(st.sampled_from([2.0, 4.0])), "data_seed": draw(st.integers(0, 2 ** 31 - 1)),
        "np_seed": draw(st.integers(0, 2 ** 31 - 1)), "py_seed": draw(st.integers(0, 2 ** 31 - 1)),
        "beta": draw(st.sampled_from([0.0, 0.5, 2.0])), "beta_form": "scalar", "lam": 0.11, "lam_form": "scalar",
        "limit": draw(st.sampled_from([3, 5, 8])), "m": draw(st.sampled_from([30, 40, 50])), "biased": draw(st.booleans()), "eps": 0,
        "num_processors": 1, "boundary_regime_flip": False, "outliers": 0, "excursion": draw(st.integers(2, 5)),
        "reuse_buffers": False,
    }
