"""Hypothesis strategies shared by several properties.  All cases are JSON-able (see core.enc)."""
import math

import numpy as np
from hypothesis import strategies as st


# ----------------------------------------------------------------------------- cost tables (C01, C15, C18, C19)

def _exact_value():
    # multiples of 1/8 with |v| <= 2**20: every partial sum of <= 4000 of them is exact in a double
    return st.integers(min_value=-(2 ** 23), max_value=2 ** 23).map(lambda n: n / 8.0)


_EXACT_BETAS = [0.0, 0.125, 0.5, 1.0, 3.0, 17.375, 1024.0, float(2 ** 30)]


@st.composite
def cost_case(draw, classes=("E", "E", "F"), shapes=("tiny", "tiny", "tiny", "small", "small", "long", "wide")):
    cls = draw(st.sampled_from(list(classes)))
    shape = draw(st.sampled_from(list(shapes)))
    if shape == "tiny":        # brute force possible
        T = draw(st.integers(1, 7))
        kmax = max(1, int(math.floor(60000 ** (1.0 / T))))
        K = draw(st.integers(1, min(6, kmax)))
    elif shape == "small":
        T = draw(st.integers(1, 40))
        K = draw(st.integers(1, 9))
    elif shape == "long":
        T = draw(st.integers(41, 400))
        K = draw(st.integers(2, 12))
    else:                      # wide: crosses the 255/256 boundary of narrow successor tables
        T = draw(st.integers(1, 3))
        K = draw(st.integers(200, 300))
    vector_beta = draw(st.booleans())
    n = T * K
    if shape in ("tiny", "small"):
        if cls == "E":
            mode = draw(st.sampled_from(["free", "pool", "pool"]))
            if mode == "pool":
                pool = draw(st.lists(_exact_value(), min_size=1, max_size=3))
                vals = draw(st.lists(st.sampled_from(pool), min_size=n, max_size=n))
            else:
                vals = draw(st.lists(_exact_value(), min_size=n, max_size=n))
            if vector_beta:
                beta = draw(st.lists(st.one_of(st.sampled_from(_EXACT_BETAS),
                                               st.integers(0, 2 ** 12).map(lambda v: v / 8.0)), min_size=T, max_size=T))
            else:
                beta = draw(st.one_of(st.sampled_from(_EXACT_BETAS), st.integers(0, 2 ** 12).map(lambda v: v / 8.0)))
        else:
            exp = draw(st.integers(-300, 297))
            lim = min(10.0 ** exp, 1e300 / max(T, 1) / 4)
            spread = draw(st.sampled_from(["uniform", "rows", "tie16"]))
            base = draw(st.lists(st.floats(-1.0, 1.0, allow_nan=False, allow_infinity=False, allow_subnormal=True),
                                 min_size=n, max_size=n))
            if spread == "rows":
                exps = draw(st.lists(st.integers(-300, exp), min_size=T, max_size=T))
                vals = [b * min(10.0 ** exps[i // K], lim) for i, b in enumerate(base)]
            elif spread == "tie16":
                # near ties at large magnitude: a big common offset plus tiny differences
                off = draw(st.sampled_from([1e16, -1e16, 4503599627370496.0, 1e8]))
                vals = [off + math.floor(b * 8) for b in base]
            else:
                vals = [b * lim for b in base]
            bmax = draw(st.sampled_from([0.0, 1e-300, 1.0, lim, lim * 1e-8, 1e300 / max(T, 1) / 4]))
            if vector_beta:
                beta = draw(st.lists(st.floats(0.0, max(bmax, 0.0), allow_nan=False), min_size=T, max_size=T))
            else:
                beta = draw(st.floats(0.0, max(bmax, 0.0), allow_nan=False))
        cost = np.array(vals, dtype=np.float64).reshape(T, K)
        beta_v = np.array(beta, dtype=np.float64) if vector_beta else float(beta)
    else:
        seed = draw(st.integers(0, 2 ** 32 - 1))
        rng = np.random.default_rng(seed)
        if cls == "E":
            kind = draw(st.sampled_from(["free", "pool", "regimes"]))
            if kind == "pool":
                pool = rng.integers(-(2 ** 20), 2 ** 20, size=3) / 8.0
                cost = pool[rng.integers(0, 3, size=(T, K))]
            elif kind == "regimes":
                # piecewise-constant cheapest cluster so that the optimal path really switches
                cost = rng.integers(0, 2 ** 10, size=(T, K)) / 8.0 + 64.0
                pos = 0
                while pos < T:
                    ln = int(rng.integers(1, max(2, T // 4)))
                    cost[pos:pos + ln, int(rng.integers(0, K))] -= 64.0
                    pos += ln
            else:
                cost = rng.integers(-(2 ** 20), 2 ** 20, size=(T, K)) / 8.0
            if vector_beta:
                beta_v = rng.integers(0, 2 ** 10, size=T) / 8.0
            else:
                beta_v = float(draw(st.sampled_from(_EXACT_BETAS + [40.0, 200.0])))
        else:
            exp = draw(st.integers(-300, 296))
            lim = min(10.0 ** exp, 1e300 / T / 4)
            cost = rng.uniform(-1, 1, size=(T, K)) * lim
            if draw(st.booleans()):
                cost = cost * (10.0 ** rng.integers(-12, 1, size=(T, 1)))
            bscale = draw(st.sampled_from([0.0, 1e-3, 1.0, 10.0])) * lim
            if vector_beta:
                beta_v = rng.uniform(0, 1, size=T) * bscale
            else:
                beta_v = float(bscale * rng.uniform(0, 1))
        cost = np.ascontiguousarray(cost, dtype=np.float64)
    return {"cls": cls, "shape": shape, "cost": cost, "beta": beta_v}
