"""Ambient process state a caller may legitimately have when it calls the library.

None of the listed properties is conditional on the logging level, on NumPy's floating-point error state, on the warnings
filter or on the multiprocessing switch, so a generated case may carry an `__ambient__` entry that the runner applies around
the execution of that case (and removes afterwards).  Every property has to hold under it exactly as without it.

kinds
  debug_logging     the `fast_ticc` logger at DEBUG with a handler that really formats every record
  fp_errors_raise   np.errstate(all="raise")     - opt-in: only for code that promises a pure copy / pure index arithmetic
  warnings_error    warnings turned into errors  - opt-in, same restriction
  mp_env            CUPCAKE_ENABLE_MULTIPROCESSING=1 (the library's own switch; traced runs keep their stand-in pool)
"""
import contextlib
import logging
import os
import warnings

KEY = "__ambient__"
DEFAULT = ("debug_logging",)


class _Sink(logging.Handler):
    """Formats every record (lazy %-formatting and __str__/__repr__ of the arguments happen) and drops the text."""
    def emit(self, record):
        try:
            self.format(record)
        except Exception:          # a broken log call is the logging module's business (it prints, never raises)
            pass


def strategy(kinds):
    from hypothesis import strategies as st
    kinds = tuple(kinds or ())
    if not kinds:
        return st.none()

    @st.composite
    def amb(draw):
        if draw(st.integers(0, 9)) < 6:
            return None
        chosen = {}
        first = draw(st.sampled_from(kinds))
        chosen[first] = True
        for k in kinds:
            if k != first and draw(st.integers(0, 2)) == 0:
                chosen[k] = True
        return chosen
    return amb()


def for_index(kinds, i):
    """Deterministic choice for enumerated domains: the i-th repeated case gets the (i mod len)-th kind."""
    kinds = tuple(kinds or ())
    if not kinds:
        return None
    return {kinds[i % len(kinds)]: True}


def tag(case, amb):
    if amb and isinstance(case, dict):
        out = dict(case)
        out[KEY] = dict(amb)
        return out
    return case


def of(case):
    return case.get(KEY) if isinstance(case, dict) else None


@contextlib.contextmanager
def apply(amb):
    if not amb:
        yield
        return
    with contextlib.ExitStack() as stack:
        if amb.get("debug_logging"):
            lg = logging.getLogger("fast_ticc")
            saved = (lg.level, lg.propagate, list(lg.handlers))
            children = {n: l.level for n, l in logging.Logger.manager.loggerDict.items()
                        if isinstance(l, logging.Logger) and n.startswith("fast_ticc.")}
            sink = _Sink(level=logging.DEBUG)
            sink.setFormatter(logging.Formatter("%(name)s %(levelname)s %(message)s"))
            lg.addHandler(sink)
            lg.setLevel(logging.DEBUG)
            lg.propagate = False
            for n in children:
                logging.getLogger(n).setLevel(logging.NOTSET)

            def restore():
                lg.removeHandler(sink)
                lg.setLevel(saved[0])
                lg.propagate = saved[1]
                for n, lv in children.items():
                    logging.getLogger(n).setLevel(lv)
            stack.callback(restore)
        if amb.get("fp_errors_raise"):
            import numpy as np
            stack.enter_context(np.errstate(all="raise"))
        if amb.get("warnings_error"):
            cm = warnings.catch_warnings()
            stack.enter_context(cm)
            warnings.simplefilter("error")
        if amb.get("mp_env"):
            old = os.environ.get("CUPCAKE_ENABLE_MULTIPROCESSING")
            os.environ["CUPCAKE_ENABLE_MULTIPROCESSING"] = "1"

            def unset():
                if old is None:
                    os.environ.pop("CUPCAKE_ENABLE_MULTIPROCESSING", None)
                else:
                    os.environ["CUPCAKE_ENABLE_MULTIPROCESSING"] = old
            stack.callback(unset)
        yield


def execute(sc, case, tally):
    amb = of(case)
    if amb:
        for k in amb:
            tally.cls("ambient_" + k)
    with apply(amb):
        sc.execute(case, tally)
