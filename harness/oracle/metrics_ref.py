"""Independent formulas for BIC (C16) and the Calinski-Harabasz index (C17)."""
import math

import numpy as np

from harness.oracle.gaussian_ref import chol_logdet


def bic(labels, thetas, emp_covs, threshold=2e-5, series_breaks=None):
    """P ln T - 2 sum_k (ln det Theta_k - tr(Theta_k S_k)); P adds, for every maximal run of equal consecutive labels,
    the number of entries of that cluster's MRF with magnitude > threshold.
    Returns the value (runs counted over the concatenated list)."""
    T = len(labels)
    K = len(thetas)
    mod = 0.0
    nz = []
    for k in range(K):
        th = np.asarray(thetas[k], dtype=float)
        S = np.atleast_2d(np.asarray(emp_covs[k], dtype=float))
        logdet, _ = chol_logdet(th)
        mod += logdet - float(np.sum(th * S.T))
        nz.append(int(np.sum(np.abs(th) > threshold)))
    P = 0
    prev = None
    for v in labels:
        if v != prev:
            P += nz[v]
            prev = v
    return P * math.log(T) - 2.0 * mod


def calinski_harabasz(data, labels, K, centre="column"):
    """[B/(K-1)] / [Wd/(T-K)] with cluster means computed here from the data and labels."""
    data = np.asarray(data, dtype=float)
    T = data.shape[0]
    labels = np.asarray(labels)
    if centre == "column":
        g = data.mean(axis=0)
    else:                       # scalar mean of all entries (the pinned tree's centre; known finding KF2)
        g = np.full(data.shape[1], data.mean())
    B = 0.0
    Wd = 0.0
    for k in range(K):
        pts = data[labels == k]
        if len(pts) == 0:
            continue
        mu = pts.mean(axis=0)
        B += len(pts) * float(np.sum((mu - g) ** 2))
        Wd += float(np.sum((pts - mu) ** 2))
    with np.errstate(divide="ignore", invalid="ignore"):
        return float(np.float64(B / (K - 1)) / np.float64(Wd / (T - K)))      # zero dispersion: inf / nan, as IEEE says
