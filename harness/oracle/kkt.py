"""KKT certificate for the block-Toeplitz graphical lasso at an ADMM stopping point (property C02).

Derived in DESIGN.md (C02): from the x/z/u update equations and the stopping rule alone it follows, for the returned
matrix X, the covariance S and the weights lambda (no rho, z or u needed):

    dist_triu(X, Toeplitz)                  <= tol_p
    |G_c|                                   <= Lambda_c + sqrt(R_c) * tol_d              for every class c
    |G_c + Lambda_c * sign(m_c)|            <= sqrt(R_c) * tol_d      if |m_c| > tol_p / sqrt(R_c)

with  G_c = sum_{p in c} (S - X^-1)_p,  Lambda_c = sum_{p in c} lambda_p,  m_c the class mean of X, R_c = |c| (upper
triangle positions),  a = sqrt(n_compressed)*abs_tol + 1e-4,  tol_p = (a + rel*||triu X||)/(1-rel),
tol_d = (a + rel*||triu(X^-1 - S)||)/(1-rel).  These are the stationarity conditions of
min -logdet Th + tr(S Th) + ||lambda o Th||_1 over block-Toeplitz Th, relaxed by the solver's own stopping tolerance.
"""
import math

import numpy as np

from harness.oracle import toeplitz

EPS = 2.0 ** -52


def certificate(X, S, lam, N, W, abs_tol=1e-6, rel_tol=1e-6):
    """-> dict(ok, worst_ratio, reason, active, inactive, ...).  X full symmetric matrix."""
    n = N * W
    X = np.asarray(X, dtype=float)
    S = np.asarray(S, dtype=float)
    out = {"ok": True, "reason": None, "worst_ratio": 0.0, "active": 0, "inactive": 0}
    if X.shape != (n, n):
        return dict(out, ok=False, reason=f"returned matrix has shape {X.shape}, expected {(n, n)}")
    if not np.all(np.isfinite(X)):
        return dict(out, ok=False, reason="returned matrix has non-finite entries")
    if not np.array_equal(X, X.T):
        return dict(out, ok=False, reason="returned matrix is not symmetric")
    try:
        evals, Q = np.linalg.eigh(X)
    except np.linalg.LinAlgError:
        return dict(out, ok=False, reason="eigendecomposition of the returned matrix failed")
    if evals[0] <= 0:
        return dict(out, ok=False, reason=f"returned matrix is not positive definite (min eigenvalue {evals[0]:.3g})")
    Xinv = (Q / evals) @ Q.T
    Xinv = (Xinv + Xinv.T) / 2
    kappa = evals[-1] / evals[0]
    inv_err = 20 * n * EPS * kappa / evals[0]          # entrywise error bound of the computed inverse
    iu = np.triu_indices(n)
    ncomp = len(iu[0])
    a = math.sqrt(ncomp) * abs_tol + 1e-4
    tol_p = (a + rel_tol * np.linalg.norm(X[iu])) / (1 - rel_tol)
    tol_d = (a + rel_tol * (np.linalg.norm((Xinv - S)[iu]) + inv_err * math.sqrt(ncomp))) / (1 - rel_tol)
    fp = 1.001                                            # 0.1 % head-room for float error in the norms
    P = toeplitz.project(X, N, W)
    dist = np.linalg.norm((X - P)[iu])
    out["toeplitz_ratio"] = dist / tol_p
    out["tol_p"], out["tol_d"] = tol_p, tol_d
    if dist > fp * tol_p:
        return dict(out, ok=False, reason=f"distance to block-Toeplitz structure {dist:.3g} exceeds the primal tolerance {tol_p:.3g}")
    if np.ndim(lam) == 0:
        lam_full = None
        lam_scalar = float(lam)
    else:
        lam_full = np.asarray(lam, dtype=float)
        lam_scalar = None
    G = S - Xinv
    worst = out["toeplitz_ratio"]
    for rows, cols in toeplitz.classes(N, W):
        R = len(rows)
        g = float(G[rows, cols].sum())
        Lc = lam_scalar * R if lam_full is None else float(lam_full[rows, cols].sum())
        m = float(X[rows, cols].mean())
        slack = fp * math.sqrt(R) * tol_d + R * inv_err + 4 * R * EPS * (abs(g) + Lc)
        if abs(m) > fp * tol_p / math.sqrt(R):
            out["active"] += 1
            resid = abs(g + Lc * math.copysign(1.0, m))
            ratio = resid / slack
            if resid > slack:
                return dict(out, ok=False, worst_ratio=ratio,
                            reason=(f"stationarity violated on an active class (size {R}, mean {m:.4g}): "
                                    f"|G + Lambda*sign| = {resid:.4g} > {slack:.4g}"))
        else:
            out["inactive"] += 1
            excess = abs(g) - Lc
            ratio = excess / slack if excess > 0 else 0.0
            if excess > slack:
                return dict(out, ok=False, worst_ratio=ratio,
                            reason=(f"subgradient bound violated on a (near-)zero class (size {R}, mean {m:.3g}): "
                                    f"|G| = {abs(g):.4g} > Lambda + slack = {Lc:.4g} + {slack:.4g}"))
        worst = max(worst, ratio)
    out["worst_ratio"] = float(worst)
    out["kappa"] = float(kappa)
    return out


def objective(X, S, lam):
    sign, logdet = np.linalg.slogdet(X)
    if sign <= 0:
        return math.inf
    return -logdet + float(np.trace(S @ X)) + float(np.sum(np.abs(np.asarray(lam) * X)))
