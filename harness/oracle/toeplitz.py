"""Independent enumeration of the block-Toeplitz equivalence classes of an NW x NW symmetric matrix
(upper triangle only), written from the structure itself, not from fast_ticc.admm.unique_values."""
import functools

import numpy as np


@functools.lru_cache(maxsize=None)
def classes(N, W):
    """-> list of (rows array, cols array); every upper-triangle position appears in exactly one class."""
    n = N * W
    groups = {}
    for i in range(n):
        I, a = divmod(i, N)
        for j in range(i, n):
            J, b = divmod(j, N)
            key = (0, min(a, b), max(a, b)) if I == J else (J - I, a, b)
            groups.setdefault(key, []).append((i, j))
    out = []
    for key in sorted(groups):
        pos = groups[key]
        out.append((np.array([p[0] for p in pos]), np.array([p[1] for p in pos])))
    return out


def project(X, N, W):
    """Nearest block-Toeplitz matrix in the compressed (upper-triangle) Euclidean norm."""
    P = np.array(X, dtype=float, copy=True)
    for rows, cols in classes(N, W):
        m = X[rows, cols].mean()
        P[rows, cols] = m
        P[cols, rows] = m
    return P
