"""Independent, exact references for the labelling objective.

Objective (property C01):  cost(seq) = sum_i c[i, seq[i]] + sum_{i<T-1, seq[i]!=seq[i+1]} beta[i]

Everything here works on Python integers: every finite double is m * 2**e, so a table of doubles is
scaled to integers by a common power of two and all sums/comparisons are exact.
"""
import itertools
import math
from fractions import Fraction

import numpy as np


def _frexp_int(x: float):
    """x == M * 2**E with M an int (exact)."""
    if x == 0.0:
        return 0, 0
    m, e = math.frexp(x)
    return int(m * (1 << 53)), e - 53


class ExactProblem:
    """Integer-scaled copy of (cost table, beta)."""

    def __init__(self, cost, beta):
        cost = np.asarray(cost)
        self.T, self.K = cost.shape
        if np.ndim(beta) == 0:
            beta_list = [float(beta)] * self.T
        else:
            beta_list = [float(b) for b in np.asarray(beta).ravel().tolist()]
            if len(beta_list) != self.T:
                raise ValueError("beta vector must have one entry per point")
        rows = [[float(v) for v in row] for row in cost.tolist()]
        parts = [_frexp_int(v) for row in rows for v in row] + [_frexp_int(b) for b in beta_list]
        exps = [e for (m, e) in parts if m != 0]
        self.emin = min(exps) if exps else 0

        def scale(v):
            m, e = _frexp_int(v)
            return m << (e - self.emin) if m else 0
        self.c = [[scale(v) for v in row] for row in rows]
        self.b = [scale(b) for b in beta_list]

    # -- conversions
    def to_fraction(self, scaled_int) -> Fraction:
        return Fraction(scaled_int) * (Fraction(2) ** self.emin)

    def scale_float(self, x: float) -> Fraction:
        """float -> exact scaled Fraction (same units as self.c)."""
        return Fraction(x) / (Fraction(2) ** self.emin)

    # -- objective
    def seq_cost(self, seq) -> int:
        tot = 0
        for i, k in enumerate(seq):
            tot += self.c[i][k]
            if i + 1 < self.T and seq[i + 1] != k:
                tot += self.b[i]
        return tot

    def brute_force_min(self) -> int:
        best = None
        for seq in itertools.product(range(self.K), repeat=self.T):
            v = self.seq_cost(seq)
            if best is None or v < best:
                best = v
        return best

    def forward_viterbi_min(self) -> int:
        """Textbook forward DP, O(T K) using the 'stay or jump from the global minimum' identity is NOT
        used here on purpose: this is the plain O(T K^2)-equivalent recurrence written with an explicit
        best/second-best so it stays independent of the code under test while remaining fast."""
        prev = list(self.c[0])
        for i in range(1, self.T):
            b = self.b[i - 1]
            # min over j != k of prev[j] is the global min unless k is the unique argmin
            m1 = min(prev)
            a1 = prev.index(m1)
            m2 = min((v for j, v in enumerate(prev) if j != a1), default=None)
            cur = []
            for k in range(self.K):
                other = m2 if k == a1 else m1
                best = prev[k]
                if other is not None and other + b < best:
                    best = other + b
                cur.append(best + self.c[i][k])
            prev = cur
        return min(prev)

    def forward_viterbi_min_quadratic(self) -> int:
        prev = list(self.c[0])
        for i in range(1, self.T):
            b = self.b[i - 1]
            cur = []
            for k in range(self.K):
                best = min(prev[j] + (0 if j == k else b) for j in range(self.K))
                cur.append(best + self.c[i][k])
            prev = cur
        return min(prev)

    def unconstrained_min(self) -> int:
        return sum(min(row) for row in self.c)

    def magnitude(self) -> Fraction:
        """sum_i max_k |c_ik| + sum beta  (scaled units) -- the scale the rounding slack is relative to."""
        return Fraction(sum(max(abs(v) for v in row) for row in self.c) + sum(abs(b) for b in self.b[:-1] or [0]))
