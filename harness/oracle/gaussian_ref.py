"""Textbook Gaussian log-density with precision matrix Theta, independent of the library's formula layout:

    log N(x; mu, Theta^-1) = 1/2 log det Theta - 1/2 (x-mu)^T Theta (x-mu) - (n/2) log 2 pi

log det from a Cholesky factor (never from det), quadratic form as ||L^T (x-mu)||^2.
"""
import math

import numpy as np

EPS = 2.0 ** -52


def chol_logdet(theta):
    L = np.linalg.cholesky(theta)
    return 2.0 * float(np.sum(np.log(np.diag(L)))), L


def log_density_table(points, means, thetas):
    """points T x n, means K x n, thetas K x n x n  ->  (T x K table, per-cluster condition numbers, logdets)."""
    points = np.asarray(points, dtype=float)
    T, n = points.shape
    K = len(thetas)
    out = np.empty((T, K))
    kappas, logdets = [], []
    for k in range(K):
        th = np.asarray(thetas[k], dtype=float)
        logdet, L = chol_logdet(th)
        d = points - np.asarray(means[k], dtype=float)
        y = d @ L                       # rows: (x-mu)^T L ; quadratic form = ||y||^2
        q = np.einsum("ij,ij->i", y, y)
        out[:, k] = 0.5 * (logdet - q - n * math.log(2 * math.pi))
        ev = np.linalg.eigvalsh(th)
        kappas.append(float(ev[-1] / ev[0]) if ev[0] > 0 else math.inf)
        logdets.append(logdet)
    return out, kappas, logdets


def tolerance(ref, n, kappa):
    """(1e-9 + 4 n^2 eps kappa) (1 + |ref|): fixed relative part + a cancellation bound for quadratic form / LU determinant."""
    return (1e-9 + 4 * n * n * EPS * kappa) * (1.0 + np.abs(ref))


def is_pd(theta):
    """Sound and complete positive-definiteness test on the float entries: Cholesky, then exact rational LDL^T when
    Cholesky fails or is marginal."""
    theta = np.asarray(theta, dtype=float)
    if theta.ndim != 2 or theta.shape[0] != theta.shape[1] or not np.all(np.isfinite(theta)):
        return False
    if not np.array_equal(theta, theta.T):
        return False
    try:
        L = np.linalg.cholesky(theta)
        if np.all(np.isfinite(L)) and np.all(np.diag(L) > 0):
            return True          # accepted (a marginally indefinite matrix may slip through: no false alarm possible)
    except np.linalg.LinAlgError:
        pass
    return exact_pd(theta)       # Cholesky failed: decide exactly, so a badly conditioned but truly PD matrix never alarms


def exact_pd(theta):
    """Exact LDL^T over the rationals (fraction-free would be faster; sizes here are small)."""
    from fractions import Fraction
    n = theta.shape[0]
    A = [[Fraction(float(theta[i, j])) for j in range(n)] for i in range(n)]
    for k in range(n):
        if A[k][k] <= 0:
            return False
        for i in range(k + 1, n):
            if A[i][k] != 0:
                f = A[i][k] / A[k][k]
                for j in range(k, n):
                    A[i][j] -= f * A[k][j]
    return True
