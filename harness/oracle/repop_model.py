"""Reference model of cluster repopulation (property C08), independent of the implementation.

needy      : clusters with fewer than 2 points
capacity_k : how many refills of m points a non-needy cluster of size s can pay for while keeping >= m and only
             donating while it holds >= 2m:  floor(s/m) - 1 if s >= 2m else 0
error      : iff sum(capacity) < #needy
usage      : greedy fill by decreasing spread (ties: any order of the tied donors)
"""
import random

import numpy as np

from harness.core import Violation


M_FORM = [None]          # element type in which min_cluster_size is handed to the library (None: Python int); set per case


def build_model(labels, K, m, spreads, nw=1):
    from fast_ticc.containers import arguments, model_state
    if M_FORM[0]:
        m = np.dtype(M_FORM[0]).type(m)
    args = arguments.UserArguments(sparsity_weight=0.1, iteration_limit=10, label_switching_cost=1.0,
                                   min_cluster_size=m, min_meaningful_covariance=0, num_clusters=K,
                                   num_processors=1, window_size=1, biased_covariance=False)
    data = np.zeros((len(labels), nw))
    ms = model_state.ModelState.empty_model(args, data)
    for k in range(K):
        ms.clusters[k].computed_covariance = spread_matrix(spreads[k], nw)
        ms.clusters[k].train_inverse = np.eye(nw)
        ms.clusters[k].stacked_data_mean = np.zeros(nw)
        ms.clusters[k].empirical_covariance = np.eye(nw)
    ms.point_labels = list(labels)
    return ms


def spread_matrix(spec, nw=1):
    """spec: a number (1x1-style matrix whose only non-zero entry is that number) or a nested list (the matrix itself)."""
    if isinstance(spec, (list, tuple, np.ndarray)):
        return np.array(spec, dtype=np.float64)
    c = np.zeros((nw, nw))
    c[0, 0] = float(spec)
    return c


def frobenius(spec):
    """The spread the property names (norm of the fitted covariance), computed here without numpy.linalg.  For the catalogue used
    by the generators (entries are small multiples of 1/2, or a single entry) the value is exact, so ties are real ties."""
    m = spread_matrix(spec)
    flat = [float(v) for v in m.ravel()]
    nz = [v for v in flat if v != 0.0]
    if len(nz) <= 1:
        return abs(nz[0]) if nz else 0.0
    import math
    return math.sqrt(math.fsum(v * v for v in nz))


def snapshot(ms):
    snap = {"labels_obj": ms.point_labels, "labels": list(ms.point_labels) if ms.point_labels is not None else None,
            "clusters_obj": [c for c in ms.clusters], "clusters": []}
    for c in ms.clusters:
        snap["clusters"].append({
            "members_obj": c.member_points, "members": list(c.member_points),
            "arrays": {name: (getattr(c, name), None if (getattr(c, name) is None or np.asarray(getattr(c, name)).dtype == object)
                              else np.array(getattr(c, name), copy=True))
                       for name in ("computed_covariance", "empirical_covariance", "train_inverse", "stacked_data_mean", "inverse_covariance")},
            "log_determinant": c.log_determinant,
        })
    snap["cost"] = ms.label_assignment_cost
    snap["args"] = ms.arguments
    return snap


def assert_unchanged(ms, snap, when):
    if ms.point_labels is not snap["labels_obj"] or list(ms.point_labels) != snap["labels"]:
        raise Violation(f"caller's model state modified ({when}): point labels changed")
    if len(ms.clusters) != len(snap["clusters_obj"]) or any(a is not b for a, b in zip(ms.clusters, snap["clusters_obj"])):
        raise Violation(f"caller's model state modified ({when}): cluster objects replaced")
    for k, (c, s) in enumerate(zip(ms.clusters, snap["clusters"])):
        if list(c.member_points) != s["members"]:
            raise Violation(f"caller's model state modified ({when}): member list of cluster {k} changed")
        for name, (obj, copy) in s["arrays"].items():
            cur = getattr(c, name)
            if cur is not obj:
                raise Violation(f"caller's model state modified ({when}): cluster {k}.{name} rebound")
            if copy is not None and not np.array_equal(cur, copy, equal_nan=True):
                raise Violation(f"caller's model state modified ({when}): cluster {k}.{name} contents changed")
        if c.log_determinant is not s["log_determinant"] and c.log_determinant != s["log_determinant"]:
            raise Violation(f"caller's model state modified ({when}): cluster {k}.log_determinant changed")
    if ms.arguments is not snap["args"]:
        raise Violation(f"caller's model state modified ({when}): arguments object replaced")


def check_partition(ms, K, T, who):
    labels = ms.point_labels
    if labels is None or len(labels) != T:
        raise Violation(f"{who}: state has {None if labels is None else len(labels)} labels for {T} points")
    if len(ms.clusters) != K:
        raise Violation(f"{who}: state has {len(ms.clusters)} clusters, expected {K}")
    members = [[] for _ in range(K)]
    for i, v in enumerate(labels):
        if isinstance(v, (bool, np.bool_)) or not isinstance(v, (int, np.integer)) or not 0 <= int(v) < K:
            raise Violation(f"{who}: label {i} = {v!r} is not an integer in [0,{K})")
        members[int(v)].append(i)
    for k in range(K):
        got = list(ms.clusters[k].member_points)
        if got != members[k]:
            raise Violation(f"{who}: member list of cluster {k} is not the sorted set of points labelled {k} "
                            f"(list has {len(got)} entries, labels give {len(members[k])})")


def expected_plan(sizes, m, spreads):
    K = len(sizes)
    needy = [k for k in range(K) if sizes[k] < 2]
    cap = [(sizes[k] // m - 1) if (sizes[k] >= 2 and sizes[k] >= 2 * m) else 0 for k in range(K)]
    return needy, cap, sum(cap) < len(needy)


def check_repopulation(labels, K, m, spreads, seed, t=None, repopulate=None, model=None):
    """Run the implementation on one case and compare with the model.  Returns observations."""
    if repopulate is None:
        from fast_ticc import cluster_maintenance
        repopulate = cluster_maintenance.repopulate_empty_clusters
    T = len(labels)
    sizes = [0] * K
    for v in labels:
        sizes[v] += 1
    needy, cap, expect_error = expected_plan(sizes, m, spreads)
    # `model`: an existing state of a lineage (produced by earlier phases) instead of a freshly built one
    ms = model if model is not None else build_model(labels, K, m, spreads)
    snap = snapshot(ms)
    random.seed(seed)
    rng_state = random.getstate()
    err = None
    out = None
    try:
        out = repopulate(ms)
    except RuntimeError as e:
        err = e
    except Exception as e:
        raise Violation(f"repopulation raised {type(e).__name__}: {e} (sizes={sizes}, m={m})")
    assert_unchanged(ms, snap, "error path" if err is not None else "success path")
    obs = {"needy": len(needy), "error": err is not None, "sizes": sizes, "donor_twice": False, "ties": False}
    if not needy:
        if err is not None:
            raise Violation(f"repopulation raised although no cluster has fewer than 2 points (sizes={sizes}, m={m}): {err}")
        if list(out.point_labels) != list(labels):
            raise Violation(f"repopulation changed the labelling although no cluster has fewer than 2 points (sizes={sizes}, m={m})")
        check_partition(out, K, T, "repopulation result")
        return obs
    if expect_error:
        if err is None:
            raise Violation(f"repopulation returned although the donors cannot pay for {len(needy)} refills "
                            f"(sizes={sizes}, m={m}, capacities={cap})")
        msg = str(err)
        if "donor" not in msg.lower():
            raise Violation(f"donor-shortage error does not name the donor shortage: {msg!r}")
        return obs
    if err is not None:
        raise Violation(f"repopulation raised '{err}' although the donors can pay for all refills "
                        f"(sizes={sizes}, m={m}, capacities={cap}, needy={needy})")
    check_partition(out, K, T, "repopulation result")
    new = [int(v) for v in out.point_labels]
    new_sizes = [0] * K
    for v in new:
        new_sizes[v] += 1
    lost = [0] * K
    for i, (a, b) in enumerate(zip(labels, new)):
        if a != b:
            if b not in needy:
                raise Violation(f"point {i} moved into cluster {b}, which was not under-populated (sizes={sizes}, m={m})")
            if a in needy:
                raise Violation(f"point {i} was taken from under-populated cluster {a}")
            if sizes[a] < 2 * m:
                raise Violation(f"point {i} taken from cluster {a} which held {sizes[a]} < 2m = {2 * m} points")
            lost[a] += 1
    for k in needy:
        if new_sizes[k] != sizes[k] + m:
            raise Violation(f"under-populated cluster {k} went from {sizes[k]} to {new_sizes[k]} points, expected +m = {sizes[k] + m} "
                            f"(sizes={sizes}, m={m})")
    for k in range(K):
        if lost[k]:
            if lost[k] % m:
                raise Violation(f"donor {k} lost {lost[k]} points, not a multiple of m={m}")
            if new_sizes[k] < m:
                raise Violation(f"donor {k} keeps only {new_sizes[k]} < m={m} points (had {sizes[k]})")
            if new_sizes[k] != sizes[k] - lost[k]:
                raise Violation(f"donor {k} size bookkeeping inconsistent")
    # greedy fill by decreasing spread; ties in any order
    usage = [lost[k] // m for k in range(K)]
    donors = [k for k in range(K) if cap[k] > 0]
    remaining = len(needy)
    fro = [frobenius(spreads[k]) for k in range(K)]
    for s in sorted({fro[k] for k in donors}, reverse=True):
        group = [k for k in donors if fro[k] == s]
        if len(group) > 1:
            obs["ties"] = True
        gcap = sum(cap[k] for k in group)
        take = min(gcap, remaining)
        if sum(usage[k] for k in group) != take:
            raise Violation(f"donors are not used in order of decreasing spread: spread group {group} gave "
                            f"{sum(usage[k] for k in group)} refills, expected {take} (sizes={sizes}, m={m}, spreads (Frobenius)={fro}, usage={usage})")
        partial = [k for k in group if 0 < usage[k] < cap[k]]
        if any(usage[k] > cap[k] for k in group):
            raise Violation(f"donor gave more refills than it can afford (usage={usage}, capacities={cap})")
        if len(partial) > 1:
            raise Violation(f"two tied donors both partially used (usage={usage}, capacities={cap}): not a greedy fill in any order")
        remaining -= take
    if any(u >= 2 for u in usage):
        obs["donor_twice"] = True
    # same generator state -> same result (a freshly built state with the same labels and spreads must agree as well)
    ms2 = build_model(labels, K, m, spreads)
    random.setstate(rng_state)
    out2 = repopulate(ms2)
    if [int(v) for v in out2.point_labels] != new:
        raise Violation("repopulation is not a function of (labels, spreads, Python RNG state): a freshly built state with the same "
                        "labels and spreads gives a different result from the same RNG state")
    obs["usage"] = usage
    obs["new_labels"] = new
    obs["out"] = out
    return obs
