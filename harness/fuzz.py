"""Coverage-guided engine (Atheris / libFuzzer) for sub-checks that define `fuzz_decode`.

    python -m harness.fuzz --property C01 --sub NAME --runs N --seed S --out FILE [--corpus DIR]

The fuzz target decodes the bytes into a structured case (FuzzedDataProvider), runs the sub-check's ordinary `execute`
(the semantic oracle is inside the target) and stops at the first Violation, which is written out as the usual JSON result.
libFuzzer ends the process itself, so the tally is dumped periodically and on the last planned execution.
"""
import argparse
import json
import os
import sys
import time
import traceback


def main():
    ap = argparse.ArgumentParser()
    ap.add_argument("--property", required=True)
    ap.add_argument("--sub", required=True)
    ap.add_argument("--runs", type=int, default=10000)
    ap.add_argument("--seed", type=int, default=1)
    ap.add_argument("--out", required=True)
    ap.add_argument("--corpus", default=None)
    ap.add_argument("--seed-corpus", action="store_true")
    a = ap.parse_args()
    t0 = time.time()
    import atheris
    with atheris.instrument_imports(include=["fast_ticc"]):
        import fast_ticc  # noqa: F401
        from fast_ticc import cluster_label_assignment, cluster_maintenance  # noqa: F401
    from harness import core, ambient
    from harness.core import Tally, Violation, Discard, enc
    from harness.main import load_property, find_sub

    mod = load_property(a.property)
    sc = find_sub(mod, a.sub)
    tally = Tally()
    open_, _ = core.load_known_findings()
    tally.open_keys = set(open_.get(mod.PROPERTY, {}).keys())
    state = {"n": 0, "done": False}

    def dump(violation=None, error=None, case=None):
        out = {"sub": a.sub, "mode": "fuzz", "shard": "0/1", "violation": None, "error": error, "n_planned": a.runs,
               "tally": tally.to_json(), "wall_s": time.time() - t0}
        if violation is not None:
            out["violation"] = {"message": violation.message, "detail": core.brief(violation.detail), "case": enc(case)}
        if error is not None and case is not None:
            try:
                out["error_case"] = enc(case)
            except Exception:
                pass
        tmp = a.out + ".tmp"
        with open(tmp, "w") as f:
            json.dump(out, f)
            f.flush()
            os.fsync(f.fileno())
        os.replace(tmp, a.out)

    def target(data):
        if state["done"]:
            return
        fdp = atheris.FuzzedDataProvider(data)
        try:
            case = sc.fuzz_decode(fdp)
        except Exception:
            return
        if case is None:
            return
        state["n"] += 1
        tally.begin(case)
        try:
            ambient.execute(sc, case, tally)
        except Discard:
            pass
        except Violation as v:
            state["done"] = True
            dump(violation=v, case=case)
            sys.stdout.flush()
            os._exit(0)
        except Exception as e:
            state["done"] = True
            dump(error="".join(traceback.format_exception(type(e), e, e.__traceback__))[-4000:], case=case)
            os._exit(0)
        if state["n"] % 1000 == 0 or state["n"] >= a.runs:
            dump()
        if state["n"] >= a.runs:
            os._exit(0)

    argv = [sys.argv[0], f"-seed={a.seed % (2 ** 31 - 1) + 1}", f"-runs={a.runs * 3}", "-max_len=512", "-print_final_stats=0",
            "-verbosity=0"]
    if a.corpus:
        os.makedirs(a.corpus, exist_ok=True)
        if a.seed_corpus and getattr(sc, "fuzz_seeds", None):
            for i, b in enumerate(sc.fuzz_seeds()):
                with open(os.path.join(a.corpus, f"seed{i}"), "wb") as f:
                    f.write(b)
        argv.append(a.corpus)
    dump()
    atheris.Setup(argv, target)
    atheris.Fuzz()
    dump()
    os._exit(0)


if __name__ == "__main__":
    main()
