"""Caller-side buffer reuse.

Real callers often keep one array and refill it in place between calls (parameter sweeps, streaming windows).  A library
that memoises on the *identity* (id(), data pointer, shape) of an argument then serves stale results.  `reuse(tag, array)`
returns a process-persistent array object of the same shape/dtype/layout whose contents were overwritten with `array`'s, so
consecutive generated cases of equal shape hand the very same object, with new contents, to the code under test.
The failure this provokes depends on the earlier calls of the process; harness/main.py turns it into a sequence replay."""
import numpy as np

_POOL = {}


def reuse(tag, a, enabled=True):
    a = np.asarray(a)
    if not enabled:
        return a
    order = "F" if (a.ndim > 1 and a.flags.f_contiguous and not a.flags.c_contiguous) else "C"
    key = (tag, a.shape, str(a.dtype), order)
    buf = _POOL.get(key)
    if buf is None:
        buf = np.array(a, copy=True, order=order)
        _POOL[key] = buf
        if len(_POOL) > 4000:
            _POOL.clear()
            _POOL[key] = buf
        return buf
    buf[...] = a
    return buf


# ----------------------------------------------------------------------------- other kinds of array a caller may hold

class _Sub(__import__("numpy").ndarray):
    """A trivial ndarray subclass (what many libraries hand out: unit-carrying arrays, recarrays, ...)."""


def as_kind(a, kind):
    """The same numbers in another kind of array object: an ndarray subclass, a masked array without a mask, an np.matrix, a
    memory map (read-write or read-only) whose file is already unlinked.  The values and the 2-D shape are unchanged."""
    import numpy as np
    if kind in (None, "ndarray"):
        return a
    if kind == "subclass":
        return a.view(_Sub)
    if kind == "masked":
        return np.ma.MaskedArray(a)
    if kind == "matrix":
        return np.matrix(a) if a.ndim == 2 else a
    if kind in ("memmap_rw", "memmap_ro"):
        import os
        import tempfile
        d = os.path.join(os.environ.get("VERIF_HOME", "."), ".work")
        os.makedirs(d, exist_ok=True)
        fd, path = tempfile.mkstemp(prefix="mm-", suffix=".dat", dir=d)
        try:
            with os.fdopen(fd, "wb") as f:
                f.write(np.ascontiguousarray(a).tobytes())
            mm = np.memmap(path, dtype=a.dtype, mode="r+" if kind == "memmap_rw" else "r", shape=a.shape)
        finally:
            os.unlink(path)          # the mapping stays valid; nothing is left on disk
        return mm
    raise ValueError(kind)
