"""Caller-side buffer reuse.

Real callers often keep one array and refill it in place between calls (parameter sweeps, streaming windows).  A library
that memoises on the *identity* (id(), data pointer, shape) of an argument then serves stale results.  `reuse(tag, array)`
returns a process-persistent array object of the same shape/dtype/layout whose contents were overwritten with `array`'s, so
consecutive generated cases of equal shape hand the very same object, with new contents, to the code under test.
The failure this provokes depends on the earlier calls of the process; harness/main.py turns it into a sequence replay."""
import numpy as np

_POOL = {}


def reuse(tag, a, enabled=True):
    a = np.asarray(a)
    if not enabled:
        return a
    order = "F" if (a.ndim > 1 and a.flags.f_contiguous and not a.flags.c_contiguous) else "C"
    key = (tag, a.shape, str(a.dtype), order)
    buf = _POOL.get(key)
    if buf is None:
        buf = np.array(a, copy=True, order=order)
        _POOL[key] = buf
        if len(_POOL) > 4000:
            _POOL.clear()
            _POOL[key] = buf
        return buf
    buf[...] = a
    return buf
