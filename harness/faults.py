"""Fault injection for C20 (and delays for C14): module-level, picklable-by-reference substitutes for the public optimiser
entry point.  Configuration lives in module globals that are set BEFORE the library forks its worker pool, so the workers
inherit it; a multiprocessing.Value reports back whether the fault actually fired."""
import multiprocessing
import os
import time

import numpy as np

_REAL = None            # the genuine admm_optimize_theta
_TARGET_S = None        # covariance that identifies the task to fail
_EXC = None             # (type name, message)
_FIRED = None           # multiprocessing.Value('i')
_DELAYS = None          # list of (covariance, seconds) for C14
_LOG_FD = None          # pipe write end: completion order log for C14

EXC_TYPES = {
    "ValueError": ValueError, "RuntimeError": RuntimeError, "ZeroDivisionError": ZeroDivisionError,
    "KeyError": KeyError, "MemoryError": MemoryError, "FloatingPointError": FloatingPointError,
    "LinAlgError": np.linalg.LinAlgError, "ArithmeticError": ArithmeticError, "IndexError": IndexError,
    "AttributeError": AttributeError, "TypeError": TypeError, "OverflowError": OverflowError,
}


def failing_admm(*a, **k):
    if _TARGET_S is not None and np.asarray(a[0]).shape == _TARGET_S.shape and np.array_equal(a[0], _TARGET_S):
        if _FIRED is not None:
            with _FIRED.get_lock():
                _FIRED.value += 1
        raise EXC_TYPES[_EXC[0]](_EXC[1])
    return _REAL(*a, **k)


def delaying_admm(*a, **k):
    delay = 0.0
    idx = -1
    if _DELAYS:
        for i, (S, d) in enumerate(_DELAYS):
            if np.asarray(a[0]).shape == S.shape and np.array_equal(a[0], S):
                delay, idx = d, i
                break
    res = _REAL(*a, **k)
    if delay:
        time.sleep(delay)
    if _LOG_FD is not None and idx >= 0:
        try:
            os.write(_LOG_FD, bytes([idx]))
        except OSError:
            pass
    return res


class Installed:
    """Context manager: substitute the optimiser entry point (module attribute looked up at call time by the library)."""

    def __init__(self, fn):
        self.fn = fn

    def __enter__(self):
        global _REAL
        from fast_ticc import admm
        self.admm = admm
        _REAL = admm.admm_optimize_theta
        self.saved = _REAL
        admm.admm_optimize_theta = self.fn
        return self

    def __exit__(self, *exc):
        global _REAL, _TARGET_S, _EXC, _FIRED, _DELAYS, _LOG_FD
        self.admm.admm_optimize_theta = self.saved
        _REAL = _TARGET_S = _EXC = _FIRED = _DELAYS = _LOG_FD = None
        return False


def arm_fault(target_S, exc_name, message):
    global _TARGET_S, _EXC, _FIRED
    _TARGET_S = np.array(target_S, copy=True)
    _EXC = (exc_name, message)
    _FIRED = multiprocessing.Value("i", 0)
    return _FIRED


def arm_delays(delays, log_fd=None):
    global _DELAYS, _LOG_FD
    _DELAYS = [(np.array(S, copy=True), float(d)) for S, d in delays]
    _LOG_FD = log_fd
