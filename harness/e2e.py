"""Traced end-to-end runs of the two front ends.

run(config) executes ticc_labels / ticc_joint_labels on data built deterministically from the config, with
  * stdout silenced (the library prints its arguments),
  * both library RNGs (NumPy global, Python global) seeded from the config,
  * a listener on the guarded hook that snapshots every phase boundary (and keeps the live references so that a
    later in-place mutation of a state that was already handed on can be detected),
  * optionally a synchronous stand-in for multiprocessing.Pool (the documented "something that looks just like it"
    seam) and a recording wrapper around the public optimiser entry point.
"""
import contextlib
import io
import multiprocessing
import os
import random

import numpy as np

from harness.core import HarnessError

ARRAY_FIELDS = ("stacked_data_mean", "empirical_covariance", "train_inverse", "computed_covariance", "inverse_covariance")


# ----------------------------------------------------------------------------- data

def build_series(cfg):
    """Piecewise-stationary multivariate series.  Deterministic in cfg['data_seed']."""
    rng = np.random.default_rng(cfg["data_seed"])
    N = cfg["N"]
    nreg = cfg.get("regimes", 2)
    means = rng.normal(0, cfg.get("mean_spread", 2.0), size=(nreg, N))
    mixes = [rng.normal(size=(N, N)) * 0.6 + np.eye(N) for _ in range(nreg)]
    ar = rng.uniform(-0.6, 0.8, size=nreg)
    scales = np.asarray(cfg.get("sensor_scales") or [1.0] * N, dtype=float)
    out = []
    for si, T in enumerate(cfg["lengths"]):
        x = np.zeros((T, N))
        pos = 0
        reg = int(rng.integers(0, nreg))
        if cfg.get("boundary_regime_flip") and si > 0:
            reg = (cfg["_last_reg"] + 1) % nreg
        prev = np.zeros(N)
        if cfg.get("alternating_rows"):
            # a label change at (almost) every row: two levels far apart, taken in turn - vectorised, for very long series
            lv = np.array([means[0], means[0] + 40.0])
            x = lv[np.arange(T) % 2] + rng.normal(0, 0.5, size=(T, N))
            pos = T
            last = reg
        while pos < T:
            if cfg.get("short_segments"):
                seg = int(rng.integers(2, 40))
                nxt = ((pos // 4096) + 1) * 4096
                if pos < nxt < pos + seg + 40:
                    seg = nxt - pos          # a regime change exactly at row 4096, 8192, ... (block-size boundaries)
            else:
                seg = int(rng.integers(max(3, T // (2 * nreg + 1)), max(4, T // 2 + 1)))
            for tt in range(pos, min(T, pos + seg)):
                e = mixes[reg] @ rng.normal(size=N)
                prev = ar[reg] * prev + e
                x[tt] = means[reg] + prev
            pos += seg
            last = reg
            reg = int(rng.integers(0, nreg))
            if cfg.get("short_segments") and nreg > 1 and reg == last:
                reg = (reg + 1) % nreg
        cfg["_last_reg"] = last
        if cfg.get("constant_sensor") is not None and cfg["constant_sensor"] < N:
            x[:, cfg["constant_sensor"]] = 1.25
        for j in range(int(cfg.get("outliers") or 0)):
            # isolated rows far from everything else: they tend to end up alone in a cluster (one-member clusters,
            # repopulation in the following round)
            pos_o = int(rng.integers(0, T))
            x[pos_o] = means[0] + (12.0 + 6.0 * j) * (1 if j % 2 == 0 else -1)
        if cfg.get("stray_pair") and T >= 12:
            # two far-away, nearly equal rows some distance apart: the initialisation gives them a cluster of their own, and the
            # first relabelling often leaves that cluster with a single point
            a_ = int(rng.integers(1, T // 2))
            b_ = int(rng.integers(T // 2 + 1, T - 1))
            x[a_] = means[0] + 30.0
            x[b_] = means[0] + 30.0 + rng.normal(0, 0.05, size=N)
        if cfg.get("excursion"):
            # a short excursion of a few consecutive rows to a far-away level: a cluster with a handful of members
            pos_e = int(rng.integers(5, max(6, T - 10)))
            x[pos_e:pos_e + int(cfg["excursion"])] = means[0] + 25.0 + rng.normal(0, 0.3, size=(min(int(cfg["excursion"]), T - pos_e), N))
        if cfg.get("duplicate_rows"):
            k = max(1, T // 3)
            x[T - k:] = x[:k]
        if cfg.get("quantise"):
            # a coarse sensor (a few integer levels): many stacked windows are bit-identical and land in different clusters
            x = np.round(x / float(cfg["quantise"])) * float(cfg["quantise"])
        arr = x * scales + float(cfg.get("data_offset") or 0.0)
        if cfg.get("series_dtype"):
            # the element type / byte order the caller's recording happens to have (a file read with another endianness, single
            # or half precision sensors); kept only if every value stays finite in that type
            cast = arr.astype(cfg["series_dtype"])
            if np.all(np.isfinite(cast.astype(np.float64))):
                arr = cast
        if cfg.get("reuse_buffers"):
            from harness import buffers
            arr = buffers.reuse(f"e2e.series.{si}", arr)       # same array object as in earlier runs of this process
        out.append(arr)
    cfg.pop("_last_reg", None)
    if cfg.get("first_series_dtype") and len(out) >= 2 and not cfg.get("reuse_buffers") and not cfg.get("series_as_views"):
        # recordings of different element types in one joint call, the narrowest first
        out[0] = np.round(out[0]).astype("int64") if cfg["first_series_dtype"] == "int64" else out[0].astype(cfg["first_series_dtype"])
    if cfg.get("series_kind") and not cfg.get("reuse_buffers") and not cfg.get("series_as_views"):
        from harness import buffers
        out = [buffers.as_kind(a, cfg["series_kind"]) for a in out]
    if cfg.get("series_as_views") == "interleaved":
        # recordings multiplexed row by row in one buffer (series i is rows i, i+n, i+2n, ...): contiguous within a row, strided
        # between rows; a single series is interleaved with a decoy
        n = max(2, len(out))
        L = max(len(a) for a in out)
        owner = np.full((L * n, out[0].shape[1]), -7.25, dtype=out[0].dtype)
        for i, a in enumerate(out):
            owner[i::n][:len(a)] = a
        out = [owner[i::n][:len(a)] for i, a in enumerate(out)]
    elif cfg.get("series_as_views") and len(out) >= 2:
        # pieces of one recording handed over in another order than they lie in memory (row-slice views of one owner)
        rngv = np.random.default_rng(cfg["data_seed"] + 7)
        order = [int(i) for i in rngv.permutation(len(out))]
        owner = np.vstack([out[i] for i in order])
        views, pos = {}, 0
        for i in order:
            views[i] = owner[pos:pos + len(out[i])]
            pos += len(out[i])
        out = [views[i] for i in range(len(out))]
    return out


def make_lambda(cfg, nw):
    v = cfg["lam"]
    form = cfg.get("lam_form", "scalar")
    if form == "scalar":
        return float(v)
    if form == "const_matrix":
        return np.full((nw, nw), float(v))
    rng = np.random.default_rng(cfg["data_seed"] + 99)
    M = rng.uniform(0.2, 1.0, size=(nw, nw)) * float(v)
    if form == "asymmetric_matrix":
        return M           # the optimiser reads the upper triangle; the lower one is the caller's business
    return np.triu(M) + np.triu(M, 1).T


def make_beta(cfg, total_stacked):
    v = cfg["beta"]
    if cfg.get("beta_form", "scalar") == "vector":
        if cfg.get("beta_vector_seed") is not None:
            rng = np.random.default_rng(cfg["beta_vector_seed"])
            vec = np.round(rng.uniform(0, 2, size=total_stacked) * float(v), 3)
        else:
            vec = np.full(total_stacked, float(v))
        # exact zeros (free transitions) at named places: the ends of the chain are where a per-segment treatment goes wrong
        for where in cfg.get("beta_zero_at", ()):
            if where == "first":
                idx = [0]
            elif where == "second":
                idx = [1]
            elif where == "second_to_last":
                idx = [total_stacked - 2]
            elif where == "last":
                idx = [total_stacked - 1]
            elif where == "pair_in_the_middle":
                idx = [total_stacked // 2, total_stacked // 2 + 1]
            else:       # "scattered"
                idx = list(range(3, total_stacked, 7))
            for i in idx:
                if 0 <= i < total_stacked:
                    vec[i] = 0.0
        return vec
    return float(v)


# ----------------------------------------------------------------------------- snapshots

def snap_state(ms):
    labels = ms.point_labels
    s = {"labels": None if labels is None else [int(v) for v in labels],
         "n_clusters": len(ms.clusters), "cost": ms.label_assignment_cost, "clusters": []}
    for c in ms.clusters:
        d = {"members": [int(v) for v in c.member_points], "log_determinant": c.log_determinant}
        for f in ARRAY_FIELDS:
            v = getattr(c, f)
            if v is not None and np.asarray(v).dtype == object:
                v = None           # ClusterParameters.deep_copy turns an unset field (None) into a 0-d object array
            d[f] = None if v is None else np.array(v, copy=True)
        s["clusters"].append(d)
    return s


def states_equal(a, b, fields=("stacked_data_mean", "empirical_covariance", "train_inverse", "computed_covariance"), logdet=True):
    """-> None if equal else a description of the first difference (labels, membership, fitted statistics, cost)."""
    if a["labels"] != b["labels"]:
        return "labels"
    if a["n_clusters"] != b["n_clusters"]:
        return "number of clusters"
    if not _same_scalar(a["cost"], b["cost"]):
        return "label assignment cost"
    for k, (ca, cb) in enumerate(zip(a["clusters"], b["clusters"])):
        if ca["members"] != cb["members"]:
            return f"membership of cluster {k}"
        if logdet and not _same_scalar(ca["log_determinant"], cb["log_determinant"]):
            return f"log-determinant of cluster {k}"
        for f in fields:
            va, vb = ca[f], cb[f]
            if (va is None) != (vb is None):
                return f"{f} of cluster {k}"
            if va is not None and not (va.shape == vb.shape and np.array_equal(va, vb, equal_nan=True)):
                return f"{f} of cluster {k}"
    return None


def _same_scalar(a, b):
    if a is None or b is None:
        return a is None and b is None
    try:
        fa, fb = float(a), float(b)
    except Exception:
        return a is b
    return fa == fb or (fa != fa and fb != fb)


# ----------------------------------------------------------------------------- pool stand-in

class _Done:
    def __init__(self, value=None, exc=None):
        self.value, self.exc = value, exc

    def get(self, timeout=None):
        if self.exc is not None:
            raise self.exc
        return self.value

    def wait(self, timeout=None):
        return None

    def ready(self):
        return True

    def successful(self):
        return self.exc is None


class SyncPool:
    """Single-process stand-in for multiprocessing.Pool: tasks run at submission."""
    instances = []

    def __init__(self, processes=None, *a, **k):
        self.processes = processes
        self.closed = self.joined = self.terminated = False
        self.submitted = 0
        SyncPool.instances.append(self)

    def apply_async(self, func, args=(), kwds=None, callback=None, error_callback=None):
        self.submitted += 1
        try:
            value = func(*args, **(kwds or {}))
        except Exception as e:          # delivered at .get(), like the real pool
            if error_callback is not None:
                error_callback(e)
            return _Done(exc=e)
        if callback is not None:
            callback(value)
        return _Done(value=value)

    # the rest of the multiprocessing.Pool interface, so that library code which uses another submission call than
    # apply_async meets a pool that behaves like one (everything runs at submission, in order)
    def apply(self, func, args=(), kwds=None):
        self.submitted += 1
        return func(*args, **(kwds or {}))

    def map(self, func, iterable, chunksize=None):
        items = list(iterable)
        self.submitted += len(items)
        return [func(x) for x in items]

    def starmap(self, func, iterable, chunksize=None):
        items = list(iterable)
        self.submitted += len(items)
        return [func(*x) for x in items]

    def imap(self, func, iterable, chunksize=1):
        return iter(self.map(func, iterable))

    def imap_unordered(self, func, iterable, chunksize=1):
        return iter(self.map(func, iterable))

    def _async(self, compute, callback, error_callback):
        try:
            value = compute()
        except Exception as e:
            if error_callback is not None:
                error_callback(e)
            return _Done(exc=e)
        if callback is not None:
            callback(value)
        return _Done(value=value)

    def map_async(self, func, iterable, chunksize=None, callback=None, error_callback=None):
        return self._async(lambda: self.map(func, iterable), callback, error_callback)

    def starmap_async(self, func, iterable, chunksize=None, callback=None, error_callback=None):
        return self._async(lambda: self.starmap(func, iterable), callback, error_callback)

    def close(self):
        self.closed = True

    def join(self):
        self.joined = True

    def terminate(self):
        self.terminated = True

    def __enter__(self):
        return self

    def __exit__(self, *a):
        self.terminate()


# ----------------------------------------------------------------------------- the traced run

class Trace:
    def __init__(self):
        self.ok = False
        self.exc = None
        self.result = None
        self.begin = None
        self.rounds = []          # list of {"phases": {name: {"before": snap, "after": snap}}, "relabel_inputs": {...}, "admm": [...]}
        self.end = None
        self.live = []            # (live state object, snapshot, where) for late-mutation detection
        self.admm_exits = []
        self.series = None
        self.cfg = None
        self.events = []
        self.sequence = []        # ordered (event, phase name, round)


def _round(trace, r):
    while len(trace.rounds) <= r:
        trace.rounds.append({"phases": {}, "relabel_inputs": None, "admm": []})
    return trace.rounds[r]


def run(cfg, sync_pool=True, record_admm=True, admm_wrapper=None, series=None, extra_kwargs=None):
    try:
        import fast_ticc
        from fast_ticc import _verif, admm
    except ImportError as e:
        raise HarnessError(f"cannot import the library / its verification hook: {e}")
    if not _verif.ENABLED:
        raise HarnessError("FAST_TICC_VERIF is not set in this process")
    trace = Trace()
    trace.cfg = cfg
    if series is None:
        series = build_series(dict(cfg))
    trace.series = series
    W, K = cfg["W"], cfg["K"]
    if cfg.get("prior_calls_on_same_arrays"):
        _prior_calls_on_same_arrays(series, W)
    if cfg.get("prior_run_override"):
        # what a parameter sweep does: the same arrays were clustered a moment ago, in this process, with ONE setting different
        # (its outcome, even an exception, is of no interest here)
        prior = dict(cfg)
        prior.update(cfg["prior_run_override"])
        prior["prior_run_override"] = None
        prior["prior_calls_on_same_arrays"] = False
        try:
            run(prior, sync_pool=sync_pool, record_admm=False, series=series)
        except HarnessError:
            raise
        except Exception:
            pass
    nw = cfg["N"] * W
    total_stacked = max(1, sum(max(0, len(s) - W + 1) for s in series))     # (callers that feed the wrong input kind override beta anyway)
    lam = make_lambda(cfg, nw)
    beta = make_beta(cfg, total_stacked)
    trace.lam, trace.beta = lam, beta
    trace.lam_before = lam.copy() if isinstance(lam, np.ndarray) else lam
    trace.beta_before = beta.copy() if isinstance(beta, np.ndarray) else beta
    kwargs = dict(window_size=W, num_clusters=K, sparsity_weight=lam, label_switching_cost=beta,
                  iteration_limit=cfg["limit"], min_meaningful_covariance=cfg.get("eps", 0),
                  num_processors=cfg.get("num_processors", 1), min_cluster_size=cfg["m"],
                  biased_covariance=cfg.get("biased", False))
    if cfg.get("flag_form") == "np.bool_":
        kwargs["biased_covariance"] = np.bool_(kwargs["biased_covariance"])
    elif cfg.get("flag_form") == "int":
        kwargs["biased_covariance"] = int(bool(kwargs["biased_covariance"]))
    if extra_kwargs:
        kwargs.update(extra_kwargs)
    trace.kwargs = kwargs
    cur = {"round": 0}

    def listener(ev, p):
        trace.events.append(ev)
        trace.sequence.append((ev, p.get("name"), p.get("round")))
        if ev == "run_begin":
            trace.begin = {"stacked": np.array(p["stacked_training_data"], copy=True),
                           "initial": snap_state(p["model"]),
                           "user_args": p["user_args"]}
            trace.live.append((p["model"], snap_state(p["model"]), "initial state"))
        elif ev == "phase":
            r = _round(trace, p["round"])
            cur["round"] = p["round"]
            before, after = snap_state(p["before"]), snap_state(p["after"])
            r["phases"][p["name"]] = {"before": before, "after": after, "same_object": p["before"] is p["after"]}
            trace.live.append((p["after"], after, f"output of {p['name']} in round {p['round']}"))
        elif ev == "relabel_inputs":
            # fires before the 'relabel' phase event of the same round
            r = _round(trace, len([1 for q in trace.rounds if q["relabel_inputs"] is not None]))
            sc = p["switching_cost"]
            r["relabel_inputs"] = {"cost": np.array(p["cost_table"], copy=True),
                                   "beta": np.array(sc, copy=True) if isinstance(sc, np.ndarray) else sc,
                                   "model": snap_state(p["model"])}
        elif ev == "run_end":
            trace.end = {"rounds": p["rounds"], "reason": p["reason"], "model": snap_state(p["model"])}
        elif ev == "admm_exit":
            trace.admm_exits.append({"iterations": p["iterations"], "fired": bool(p["stop_rule_fired"])})

    real_admm = admm.admm_optimize_theta

    def recording(*a, **k):
        rec = {"S": np.array(a[0], copy=True), "S_obj": a[0], "lam": (np.array(a[1], copy=True) if isinstance(a[1], np.ndarray) else a[1]),
               "lam_obj": a[1], "W": a[2], "N": a[3], "kwargs": dict(k)}
        _round(trace, _current_round(trace))["admm"].append(rec)
        res = real_admm(*a, **k) if admm_wrapper is None else admm_wrapper(real_admm, *a, **k)
        rec["theta"] = np.array(res.theta, copy=True)
        return res

    _verif.listeners.append(listener)
    saved_pool = multiprocessing.Pool
    if sync_pool:
        multiprocessing.Pool = SyncPool
        SyncPool.instances.clear()
        if record_admm or admm_wrapper is not None:
            admm.admm_optimize_theta = recording
    np.random.seed(cfg["np_seed"])
    random.seed(cfg["py_seed"])
    # the library's own multiprocessing switch, set by the caller's environment (the stand-in pool stays in place)
    mp_saved = os.environ.get("CUPCAKE_ENABLE_MULTIPROCESSING")
    if sync_pool and cfg.get("mp_env"):
        os.environ["CUPCAKE_ENABLE_MULTIPROCESSING"] = "1"
    try:
        with contextlib.redirect_stdout(io.StringIO()):
            pos = ()
            if cfg.get("positional_call"):
                kwargs = dict(kwargs)
                pos = (kwargs.pop("window_size"), kwargs.pop("num_clusters"))
            if cfg["front"] == "single":
                trace.result = fast_ticc.ticc_labels(series[0], *pos, **kwargs)
            else:
                arg = series if isinstance(series, list) else list(series)     # the caller's own list object, not a copy
                cont = cfg.get("series_container", "list")
                if cont == "tuple":
                    arg = tuple(arg)
                elif cont == "generator":
                    arg = (a for a in arg)
                elif cont == "iterator":
                    arg = iter(arg)
                trace.result = fast_ticc.ticc_joint_labels(arg, *pos, **kwargs)
        trace.ok = True
    except Exception as e:
        trace.exc = e
    finally:
        _verif.listeners.remove(listener)
        multiprocessing.Pool = saved_pool
        admm.admm_optimize_theta = real_admm
        if sync_pool and cfg.get("mp_env"):
            if mp_saved is None:
                os.environ.pop("CUPCAKE_ENABLE_MULTIPROCESSING", None)
            else:
                os.environ["CUPCAKE_ENABLE_MULTIPROCESSING"] = mp_saved
    trace.pools = list(SyncPool.instances) if sync_pool else []
    return trace


def _prior_calls_on_same_arrays(series, W):
    """What a caller who keeps its arrays does before this run: the same array objects were stacked earlier with another
    window size, and with other contents (then refilled in place).  Only the library's memoisation can tell the difference."""
    from fast_ticc import data_preparation as dp
    arrays = [s for s in series if isinstance(s, np.ndarray) and s.ndim == 2]
    if not arrays:
        return
    try:
        w2 = W + 1 if all(len(a) >= W + 1 for a in arrays) else max(1, W - 1)
        if w2 != W:
            dp.stack_training_data_multiple_series(list(arrays), w2)
            dp.stack_training_data(arrays[0], w2)
        saved = [a.copy() for a in arrays]
        if all(a.flags.writeable for a in arrays):
            for a in arrays:
                a[...] = a[::-1] * 0.5 + 7.0
            dp.stack_training_data_multiple_series(list(arrays), W)
            dp.stack_training_data(arrays[0], W)
            for a, s0 in zip(arrays, saved):
                a[...] = s0
    except Exception:
        for a, s0 in zip(arrays, locals().get("saved", [])):
            if a.flags.writeable:
                a[...] = s0


def _current_round(trace):
    """Round index the optimiser calls belong to: the round whose 'statistics' phase was seen last."""
    r = -1
    for i, q in enumerate(trace.rounds):
        if "statistics" in q["phases"]:
            r = i
    return max(r, 0)


def late_mutations(trace):
    """States that were handed on and later changed in place (labels, membership, fitted statistics)."""
    out = []
    for obj, snap, where in trace.live:
        d = states_equal(snap, snap_state(obj))
        if d is not None:
            out.append(f"{where}: {d} changed after the state was handed on")
    return out


def result_fields(res):
    """All fields of a result object as plain values (for digests and finiteness checks)."""
    import dataclasses
    return {f.name: getattr(res, f.name) for f in dataclasses.fields(res)}
