"""Common plumbing: outcomes, tallies, case (de)serialisation, known findings, sub-check description.

A property module (props/Cxx.py) exposes

    PROPERTY = "C07"
    LEVEL    = "exploration" | "fault_enumeration"
    RULE     = "how cases are generated and what counts as non-trivial"  (goes into evidence)
    ASSUMPTIONS = [...]
    SUBCHECKS = [SubCheck(...), ...]

Each SubCheck is decided in child processes (one per mode x shard); see harness/main.py.
"""
from __future__ import annotations

import dataclasses
import hashlib
import json
import math
import os
import sys
from typing import Any, Callable, Dict, Iterable, List, Optional

import numpy as np

VERIF_HOME = os.environ.get("VERIF_HOME") or os.path.dirname(os.path.dirname(os.path.abspath(__file__)))
REPO = os.environ.get("VERIF_REPO", "/repo")


# ----------------------------------------------------------------------------- outcomes

class Violation(Exception):
    """The property is false for this case (after the oracle's stated tolerances)."""

    def __init__(self, message: str, **detail):
        super().__init__(message)
        self.message = message
        self.detail = detail


class Discard(Exception):
    """The case lies outside the property's quantifier (counted and reported, never a pass)."""

    def __init__(self, reason: str):
        super().__init__(reason)
        self.reason = reason


class HarnessError(Exception):
    """The machinery itself is broken (renamed helper, crashed worker...). Exit code 2, never a VIOLATION."""


# ----------------------------------------------------------------------------- case encoding

def enc(obj: Any) -> Any:
    """JSON-able, bit-exact encoding of a case."""
    if isinstance(obj, np.ndarray):
        a = obj
        order = "F" if (a.ndim > 1 and a.flags.f_contiguous and not a.flags.c_contiguous) else "C"
        data = np.asfortranarray(a) if order == "F" else np.ascontiguousarray(a)
        raw = data.tobytes(order="A" if order == "F" else "C")
        out = {"__nd__": str(a.dtype), "shape": list(a.shape), "order": order, "hex": raw.hex()}
        if a.size <= 64 and a.dtype.kind in "fiub":
            out["view"] = [_plain(x) for x in a.ravel(order=order).tolist()]
        return out
    if isinstance(obj, (np.floating,)):
        return {"__np__": str(obj.dtype), "hex": np.asarray(obj).tobytes().hex(), "view": _plain(float(obj))}
    if isinstance(obj, (np.integer,)):
        return {"__np__": str(obj.dtype), "hex": np.asarray(obj).tobytes().hex(), "view": int(obj)}
    if isinstance(obj, np.bool_):
        return bool(obj)
    if isinstance(obj, float):
        if math.isfinite(obj):
            return obj
        return {"__f__": repr(obj)}
    if isinstance(obj, (int, str, bool)) or obj is None:
        return obj
    if isinstance(obj, (list, tuple)):
        return [enc(x) for x in obj]
    if isinstance(obj, dict):
        return {str(k): enc(v) for k, v in obj.items()}
    if isinstance(obj, bytes):
        return {"__bytes__": obj.hex()}
    raise TypeError(f"cannot encode {type(obj)}")


def _plain(x):
    if isinstance(x, float) and not math.isfinite(x):
        return repr(x)
    return x


def dec(obj: Any) -> Any:
    if isinstance(obj, dict):
        if "__nd__" in obj:
            dt = np.dtype(obj["__nd__"])
            a = np.frombuffer(bytes.fromhex(obj["hex"]), dtype=dt)
            a = a.reshape(obj["shape"], order=obj.get("order", "C")).copy(order=obj.get("order", "C"))
            return a
        if "__np__" in obj:
            dt = np.dtype(obj["__np__"])
            return np.frombuffer(bytes.fromhex(obj["hex"]), dtype=dt)[0]
        if "__f__" in obj:
            return float(obj["__f__"])
        if "__bytes__" in obj:
            return bytes.fromhex(obj["__bytes__"])
        return {k: dec(v) for k, v in obj.items()}
    if isinstance(obj, list):
        return [dec(x) for x in obj]
    return obj


def digest(case: Any) -> str:
    return hashlib.sha1(json.dumps(enc(case), sort_keys=True).encode()).hexdigest()[:16]


def brief(case: Any, limit: int = 1500) -> Any:
    """A readable rendering of a case for evidence samples (big arrays are summarised)."""
    def go(o):
        if isinstance(o, np.ndarray):
            if o.size <= 40:
                return {"array": str(o.dtype), "shape": list(o.shape), "values": [_plain(x) for x in o.ravel().tolist()]}
            flat = o.ravel()
            return {"array": str(o.dtype), "shape": list(o.shape),
                    "head": [_plain(x) for x in flat[:8].tolist()], "sha": hashlib.sha1(np.ascontiguousarray(o).tobytes()).hexdigest()[:12]}
        if isinstance(o, (np.floating, np.integer)):
            return {"np": str(o.dtype), "value": _plain(o.item())}
        if isinstance(o, float):
            return _plain(o)
        if isinstance(o, (list, tuple)):
            if len(o) > 40 and all(isinstance(x, (int, float)) for x in o):
                return {"list_len": len(o), "head": [_plain(x) for x in o[:12]]}
            return [go(x) for x in o]
        if isinstance(o, dict):
            return {str(k): go(v) for k, v in o.items()}
        if isinstance(o, bytes):
            return o.hex()[:64]
        return o
    return go(case)


# ----------------------------------------------------------------------------- tally (per child)

class Tally:
    """What one child process measured.  execute() receives it as `t`."""

    MAX_SAMPLES = 4

    def __init__(self):
        self.evaluations = 0
        self.nontrivial = set()
        self.classes: Dict[str, int] = {}
        self.discards: Dict[str, int] = {}
        self.known: Dict[str, Dict[str, Any]] = {}
        self.samples: List[Any] = []
        self.extra: Dict[str, Any] = {}
        self.maxima: Dict[str, Any] = {}
        self.frozen = False          # set after the first failure: shrinking runs are not coverage
        self._cur_digest = None
        self._cur_case = None
        self._cur_known = None

    # --- called by the runner
    def begin(self, case):
        self._cur_case = case
        self._cur_digest = None
        self._cur_known = None
        if not self.frozen:
            self.evaluations += 1

    # --- called by execute()
    def cls(self, name: str, n: int = 1):
        if not self.frozen:
            self.classes[name] = self.classes.get(name, 0) + n

    def mark_nontrivial(self, note: Optional[dict] = None):
        if self.frozen:
            return
        if self._cur_digest is None:
            self._cur_digest = digest(self._cur_case)
        new = self._cur_digest not in self.nontrivial
        self.nontrivial.add(self._cur_digest)
        if new and len(self.samples) < self.MAX_SAMPLES:
            s = {"case": brief(self._cur_case)}
            if note:
                s["observed"] = brief(note)
            self.samples.append(s)

    def sample(self, note: dict):
        """Record a sample even if not non-trivial (used when a sub-check has few non-trivial cases)."""
        if not self.frozen and len(self.samples) < self.MAX_SAMPLES:
            self.samples.append({"case": brief(self._cur_case), "observed": brief(note)})

    def known_finding(self, key: str, what: str):
        """The case fails, and the failure matches the recomputed signature of a listed root cause."""
        self._cur_known = key
        if key not in getattr(self, "open_keys", set()):
            raise Violation(f"{what} (matches the signature '{key}', which is not listed as an open known finding)")
        if self.frozen:
            return
        k = self.known.setdefault(key, {"count": 0, "what": what, "sample": brief(self._cur_case)})
        k["count"] += 1

    def discard(self, reason: str):
        if not self.frozen:
            self.discards[reason] = self.discards.get(reason, 0) + 1
        raise Discard(reason)

    def add(self, key: str, n: int = 1):
        if not self.frozen:
            self.extra[key] = self.extra.get(key, 0) + n

    def max(self, key: str, value):
        """Running maximum (merged across children by max)."""
        if not self.frozen:
            self.maxima[key] = max(self.maxima.get(key, value), value)

    def to_json(self):
        return {
            "evaluations": self.evaluations,
            "nontrivial": sorted(self.nontrivial),
            "classes": self.classes,
            "discards": self.discards,
            "known": self.known,
            "samples": self.samples,
            "extra": self.extra,
            "maxima": self.maxima,
        }


# ----------------------------------------------------------------------------- sub-check description

E2E_MODES = {"quick": ["nojit"], "thorough": ["jit", "nojit"]}   # JIT compilation costs ~5 s per child process

@dataclasses.dataclass
class SubCheck:
    name: str
    execute: Callable[[Any, Tally], None]
    # exactly one of strategy / enumerate:
    strategy: Optional[Callable[[], Any]] = None           # () -> hypothesis strategy producing JSON-able cases
    enumerate: Optional[Callable[[str], Iterable[Any]]] = None  # tier -> iterable of cases (complete finite domain)
    budget: Dict[str, int] = dataclasses.field(default_factory=lambda: {"quick": 200, "thorough": 2000})  # cases per (mode, all shards)
    shards: Dict[str, int] = dataclasses.field(default_factory=lambda: {"quick": 2, "thorough": 16})
    modes: Any = dataclasses.field(default_factory=lambda: ["jit"])      # list, or {"quick": [...], "thorough": [...]}
    exhaustive: bool = False         # enumeration covers its stated finite domain completely
    min_nontrivial_fraction: float = 0.0   # generator-degenerate floor (exit 2 below it)
    stateful: bool = False           # strategy is a RuleBasedStateMachine class factory
    setup: Optional[Callable[[], None]] = None   # run once in the child before the first case
    shrink: Dict[str, bool] = dataclasses.field(default_factory=lambda: {"quick": True, "thorough": True})
    pinned: Optional[Callable[[], Iterable[Any]]] = None   # regression cases always run first (all tiers, shard 0)
    timeout_s: Dict[str, int] = dataclasses.field(default_factory=lambda: {"quick": 1500, "thorough": 6 * 3600})
    env: Dict[str, str] = dataclasses.field(default_factory=dict)
    fuzz_decode: Optional[Callable[[Any], Any]] = None     # Atheris: FuzzedDataProvider -> case (sub-check is a fuzz campaign)
    fuzz_seeds: Optional[Callable[[], Iterable[bytes]]] = None   # seed corpus for the odd-numbered shards (even ones start empty)
    ambient: Any = ("debug_logging",)   # harness/ambient.py kinds a generated case may carry (logging level, fp error state, ...)


# ----------------------------------------------------------------------------- known findings

def load_known_findings(path: Optional[str] = None):
    """KNOWN_FINDINGS.txt:   open: property=C07 key=<key> <what fails>
                              fixed: property=C03 <commit> <what failed>
    Read-only at run time."""
    path = path or os.path.join(VERIF_HOME, "KNOWN_FINDINGS.txt")
    open_, fixed = {}, []
    if not os.path.exists(path):
        return open_, fixed
    for line in open(path):
        line = line.strip()
        if not line or line.startswith("#"):
            continue
        kind, _, rest = line.partition(":")
        toks = rest.split()
        kv = dict(t.split("=", 1) for t in toks if "=" in t and t.split("=", 1)[0] in ("property", "key"))
        text = " ".join(t for t in toks if not (t.startswith("property=") or t.startswith("key=")))
        if kind == "open":
            open_.setdefault(kv.get("property"), {})[kv.get("key")] = text
        elif kind == "fixed":
            fixed.append((kv.get("property"), text))
    return open_, fixed


def hexfloat(x: float) -> str:
    return float(x).hex()


def seed_for(base_seed: int, *parts) -> int:
    h = hashlib.sha256(("|".join([str(base_seed)] + [str(p) for p in parts])).encode()).digest()
    return int.from_bytes(h[:8], "big")


def eprint(*a):
    print(*a, file=sys.stderr, flush=True)
